"""M10 — endurance monitor: ONE operation repeated many times in ONE process, with the tools' own
(real) multiprocessing pools, under the open-file limit of a conservative shell (soft RLIMIT_NOFILE
256 in the thorough tier — the default of macOS; 160 in the quick tier so that fewer calls decide).

What the other monitors cannot see: every single call is right for every input, option, schedule and
environment, but each call leaves something behind in the process (a descriptor that is never closed,
a worker pool that something keeps alive) and the k-th identical call fails. The oracle is the
property itself applied to every call: call k must return what call 1 returned (the operations return
a digest of everything they produced). What is left behind is recorded after every call (open
descriptors, live child processes) and reported with a failure; growth alone is no violation.

A failing FIRST call is not this monitor's business (the property's own cases judge single calls):
the run is then inconclusive."""
import os, gc, sys, time, hashlib, resource, shutil, threading, traceback
import numpy as np
from . import common, gen, pools

LIMIT = {"quick": 160, "thorough": 256}
CALLS = {"quick": 120, "thorough": 300}
MAX_WORKERS = 4      # per pool; keeps a call cheap and the descriptors one pool needs (6 + 2 W) far below the limit
STALL = 60.0         # seconds without a call returning (a call takes 0.02 .. 0.5 s) before the thread stacks are examined
DELAYED_CALLS = 6
HANDLER_DELAY = 0.01     # injected before the pool's task-handler thread records that every task was sent


class _HandlerDelay:
    """Schedule perturbation at a thread switch the interpreter may take anyway: the pool's task-handler thread is
    held for 10 ms just before it records that every task of an imap() call has been sent (IMapIterator._set_length).
    By then the (small) results are usually all in - the ordering a loaded machine produces now and then. One such
    schedule is legal; a hundred in a row are not a realistic history, so the delayed calls are judged one by one
    (does the call return, and what) under the process's normal open-file limit, never on what they leave behind."""
    def __init__(self, rec):
        self.rec = rec

    def __enter__(self):
        import multiprocessing.pool as mpp
        self.orig = orig = mpp.IMapIterator._set_length
        rec = self.rec

        def _set_length(it, length):
            time.sleep(HANDLER_DELAY)
            rec.obs["endurance_task_handler_delays_injected"] = rec.obs.get("endurance_task_handler_delays_injected", 0) + 1
            return orig(it, length)
        mpp.IMapIterator._set_length = _set_length
        return self

    def __exit__(self, *a):
        import multiprocessing.pool as mpp
        mpp.IMapIterator._set_length = self.orig


def _stacks():
    names = {t.ident: t.name for t in threading.enumerate()}
    out = {}
    for tid, fr in sys._current_frames().items():
        out[names.get(tid, str(tid))] = [(f.name, os.path.basename(f.filename), f.lineno) for f in traceback.extract_stack(fr)]
    return out


def _self_finalizing_pool(stacks):
    """The wait-for cycle of a pool that is finalized by its own task-handler thread: that thread is inside
    Pool._terminate_pool -> _help_stuff_finish (waiting for the lock an idle worker holds until the handler sends
    it something), reached from _handle_tasks; nobody else can send. Returns the thread name or None."""
    for name, st in stacks.items():
        fns = [f[0] for f in st]
        if "_handle_tasks" in fns and "_terminate_pool" in fns and fns.index("_handle_tasks") < fns.index("_terminate_pool"):
            return name
    return None


class _Watch(threading.Thread):
    """decides a stalled series from the thread stacks (a structural wait-for cycle => violation; anything else =>
    inconclusive), then ends the case process: the main thread will not come back"""
    def __init__(self, rec, what, n, key):
        super().__init__(daemon=True, name="endurance-watch")
        self.rec, self.what, self.n, self.key = rec, what, n, key
        self.k, self.t, self.done, self.phase = 0, time.time(), False, ""

    def tick(self, k):
        self.k, self.t = k, time.time()

    def run(self):
        while not self.done:
            time.sleep(1.0)
            if self.done or time.time() - self.t < STALL:
                continue
            st = _stacks()
            who = _self_finalizing_pool(st)
            main = [f"{f[0]} ({f[1]}:{f[2]})" for f in st.get("MainThread", st.get("caller", []))][-4:]
            if who:
                self.rec.violation(f"call {self.k + 1} of identical calls in one process never returned after {self.k} correct ones "
                                   f"{self.phase + ' ' if self.phase else ''}(deadlock: the worker pool is being finalized by its own task-handler thread while the caller "
                                   f"waits for results in {' <- '.join(reversed(main))}): {self.what}",
                                   witness={"stalled_call": self.k + 1, "stacks": {k: v[-8:] for k, v in st.items()}},
                                   mech="deadlock-after-repeated-calls", key=self.key)
            else:
                self.rec.undecided(f"endurance: call {self.k + 1} has not returned for {STALL:.0f} s and the thread stacks show no wait-for "
                                   f"cycle this monitor knows (caller in {' <- '.join(reversed(main))}): {self.what}")
            from . import runner
            if runner.FINISH is not None:
                runner.FINISH()
            os._exit(3)


def n_fds():
    try:
        return len(os.listdir("/proc/self/fd"))
    except OSError:
        return -1


def n_children():
    try:
        with open(f"/proc/self/task/{os.getpid()}/children") as f:
            return len(f.read().split())
    except OSError:
        import multiprocessing
        return len(multiprocessing.active_children())


def digest(*objs):
    h = hashlib.sha1()
    for o in objs:
        if isinstance(o, np.ndarray):
            h.update(str(o.shape).encode()); h.update(np.ascontiguousarray(o).tobytes())
        elif isinstance(o, (list, tuple)):
            h.update(b"[" + digest(*o).encode() + b"]")
        elif isinstance(o, dict):
            h.update(digest(*[(k, o[k]) for k in sorted(o, key=str)]).encode())
        else:
            h.update(repr(o).encode())
    return h.hexdigest()


def tree_digest(path):
    """names and bytes of everything under path"""
    h = hashlib.sha1()
    for root, dirs, files in os.walk(path):
        dirs.sort()
        for fn in sorted(files):
            p = os.path.join(root, fn)
            h.update(os.path.relpath(p, path).encode())
            with open(p, "rb") as f:
                h.update(f.read())
    return h.hexdigest()


def small_plotfile(work, seed, ndims=3, nlevels=2, **kw):
    g = dict(seed=seed, ndims=ndims, nlevels=nlevels, bf=2, base_blocks=(2, 3), payload="random",
             names=["f0", "f1", "f2"])
    g.update(kw)
    m = gen.gen_model(**g)
    path = os.path.join(work, "plt_endure")
    if os.path.exists(path):
        shutil.rmtree(path)
    gen.write_plotfile(m, path)
    return m, path


def repeat(rec, tier, what, call, key=None, calls=None):
    """call(k) -> digest of what the k-th call produced. Judges calls 2..n against call 1."""
    pools.uninstall()
    import sys
    for mn, mod in list(sys.modules.items()):   # the call counters some checks put around pool workers are closures:
        if mn.startswith("amr_kitchen") and mod is not None:    # real pools cannot pickle them
            for name, f in list(vars(mod).items()):
                if callable(f) and "<locals>" in getattr(f, "__qualname__", "") and hasattr(f, "__wrapped__"):
                    setattr(mod, name, f.__wrapped__)
    n = calls or CALLS[tier]
    soft, hard = resource.getrlimit(resource.RLIMIT_NOFILE)
    lim = LIMIT[tier] if soft == resource.RLIM_INFINITY else min(LIMIT[tier], soft)
    cpu_count = os.cpu_count
    if (os.cpu_count() or 1) > MAX_WORKERS:
        os.cpu_count = lambda: MAX_WORKERS
    resource.setrlimit(resource.RLIMIT_NOFILE, (lim, hard))
    trace, first = [], None
    key = key or ("endurance", what)
    watch = _Watch(rec, what, n, key)
    watch.start()
    try:
        for k in range(n):
            watch.tick(k)
            try:
                d = call(k)
            except (Exception, SystemExit) as e:
                if k == 0:
                    rec.undecided(f"endurance: the first call failed ({type(e).__name__}: {str(e)[:80]}): {what}")
                    return
                t = [f"{a}/{b}" for a, b in trace]
                rec.violation(f"call {k + 1} of {n} identical calls in one process failed ({type(e).__name__}: {str(e)[:80]}) after "
                              f"{k} correct ones: {what} (open-file limit {lim}; open descriptors / child processes left after "
                              f"calls 1,2,3 … {k}: {', '.join(t[:3])} … {t[-1]})",
                              witness={"calls": n, "failed_at": k + 1, "limit": lim, "left_behind": trace[-5:]},
                              mech="fails-after-repeated-calls", key=key)
                return
            gc.collect()
            trace.append((n_fds(), n_children()))
            if first is None:
                first = d
            elif d != first:
                rec.violation(f"call {k + 1} of {n} identical calls in one process produced something else than call 1: {what}",
                              witness={"calls": n, "differs_at": k + 1}, mech="repeated-call-differs", key=key)
                return
        # the same call under the perturbed schedule, a few times, under the normal limit
        resource.setrlimit(resource.RLIMIT_NOFILE, (soft, hard))
        watch.phase = "with the pool's task-handler thread delayed by 10 ms"
        with _HandlerDelay(rec):
            for j in range(DELAYED_CALLS):
                watch.tick(n + j)
                try:
                    d = call(n + j)
                except (Exception, SystemExit) as e:
                    rec.violation(f"the call failed ({type(e).__name__}: {str(e)[:80]}) {watch.phase} after {n + j} correct ones: {what}",
                                  witness={"delayed_call": j + 1}, mech="fails-under-delayed-task-handler", key=key)
                    return
                if d != first:
                    rec.violation(f"the call produced something else than call 1 {watch.phase}: {what}",
                                  witness={"delayed_call": j + 1}, mech="repeated-call-differs", key=key)
                    return
                rec.count("endurance_calls_with_delayed_task_handler")
        rec.ok(key, True)
        rec.count("endurance_calls", n)
        rec.count("endurance_series")
        rec.obs["endurance_open_descriptors_after_first_call"] = trace[0][0]
        rec.obs["endurance_open_descriptors_after_last_call"] = trace[-1][0]
        rec.obs["endurance_max_child_processes_left"] = max(b for _, b in trace)
        rec.seen("endurance_operations", what.split(":")[0])
    finally:
        watch.done = True
        resource.setrlimit(resource.RLIMIT_NOFILE, (soft, hard))
        os.cpu_count = cpu_count


# ---- the operations (each builds its own small input once and returns call(k) -> digest) ----------------

def _op_index(work, seed):
    from amr_kitchen import PlotfileCooker
    m, path = small_plotfile(work, seed)

    def call(k):
        pck = PlotfileCooker(path)
        return digest([pck[["f0", "f2"]][lv][1:3] for lv in range(m.nlevels)], pck["f1"][0][[2, 0]])
    return "index: pck[fields][lv][a:b] and [list] on a fresh reader", call


def _op_iterate(work, seed):
    from amr_kitchen import PlotfileCooker
    m, path = small_plotfile(work, seed)

    def call(k):
        pck = PlotfileCooker(path)
        return digest([sorted((a.shape, a.tobytes()) for a in pck[["f0", "f1"]][lv]) for lv in range(m.nlevels)],
                      list(pck["f2"][0].iter(slice(0, 3))), list(pck["f1"][0].iter([2, 0])))
    return "iterate: for box in pck[fields][lv] at every level, .iter(slice), .iter(list)", call


def _op_strain(work, seed):
    from amr_kitchen.colander import Colander
    m, path = small_plotfile(work, seed)
    out = os.path.join(work, "strained")

    def call(k):
        shutil.rmtree(out, ignore_errors=True)
        Colander(plotfile=path, output=out, variables=["f2", "f0"]).strain()
        return tree_digest(out)
    return "strain: Colander(...).strain() into a fresh output", call


def _op_combine(work, seed):
    from amr_kitchen import PlotfileCooker
    from amr_kitchen.combine import combine
    m, path = small_plotfile(work, seed)
    p2 = os.path.join(work, "plt_endure_b")
    m2 = gen.gen_model(**dict(seed=seed, ndims=3, nlevels=2, bf=2, base_blocks=(2, 3), payload="random", names=["g0", "g1"]))
    shutil.rmtree(p2, ignore_errors=True)
    gen.write_plotfile(m2, p2)
    out = os.path.join(work, "combined")

    def call(k):
        shutil.rmtree(out, ignore_errors=True)
        combine(PlotfileCooker(path), PlotfileCooker(p2), pltout=out)
        return tree_digest(out)
    return "combine: combine(pck1, pck2, pltout) into a fresh output", call


def _op_slice3d(work, seed):
    from amr_kitchen.mandoline import Mandoline
    m, path = small_plotfile(work, seed)

    def call(k):
        return digest(Mandoline(path, fields=["f0", "f1"], serial=False, verbose=0).slice(normal=2, fformat="return"))
    return "slice3d: Mandoline(serial=False).slice(normal=2) returning arrays", call


def _op_flatten2d(work, seed):
    from amr_kitchen.mandoline import Mandoline
    m, path = small_plotfile(work, seed, ndims=2)

    def call(k):
        return digest(Mandoline(path, fields=["f0", "f1"], serial=False, verbose=0).slice(fformat="return"))
    return "flatten2d: Mandoline(serial=False).slice() of a 2D plotfile returning arrays", call


def _op_slice_plotfile(work, seed):
    from amr_kitchen.mandoline import Mandoline
    m, path = small_plotfile(work, seed)
    out = os.path.join(work, "slc2d")

    def call(k):
        shutil.rmtree(out, ignore_errors=True)
        Mandoline(path, fields=["f0", "f1"], serial=(k % 2 == 1), verbose=0).slice(normal=0, outfile=out, fformat="plotfile")
        return tree_digest(out)
    return "slice_plotfile: Mandoline.slice(fformat='plotfile') alternately parallel / serial", call


def _op_taste(work, seed):
    from amr_kitchen.taste import Taster
    m, path = small_plotfile(work, seed)

    def call(k):
        return bool(Taster(path, nofail=True, verbose=0, boxes_coordinates=True))
    return "taste: Taster(path, boxes_coordinates=True)", call


def _op_integral(work, seed):
    from amr_kitchen import PlotfileCooker
    from amr_kitchen.pestle import volume_integral
    m, path = small_plotfile(work, seed)

    def call(k):
        return repr(volume_integral(PlotfileCooker(path, ghost=True), "f1"))
    return "integral: volume_integral(PlotfileCooker(path, ghost=True), field)", call


def _op_whip(work, seed):
    m, path = small_plotfile(work, seed)
    out = os.path.join(work, "ugrid_out")
    mod = common.repo_module("amr_kitchen.whip.cli")

    def call(k):
        for fn in os.listdir(work):
            if fn.startswith("ugrid_out"):
                os.remove(os.path.join(work, fn))
        with common.argv(["whip", "-v", "f1", "-y", "-o", out, path]), common.quiet_fds(os.path.join(work, ".whip_stdio")):
            mod.main()
        made = sorted(fn for fn in os.listdir(work) if fn.startswith("ugrid_out"))
        return digest(made, [np.load(os.path.join(work, fn)) for fn in made])
    return "whip: the whip entry point writing the uniform grid of one field", call


def _recipe_sum(fi, arr):
    """f0_plus_f2"""
    return arr[..., fi["f0"]] + arr[..., fi["f2"]]


def _op_cook(work, seed):
    from amr_kitchen.chef import Chef
    m, path = small_plotfile(work, seed)
    out = os.path.join(work, "cooked")

    def call(k):
        ds = []
        for kept in (None, "f1"):       # pathos caches its worker processes: both forms in every call
            shutil.rmtree(out, ignore_errors=True)
            Chef(plotfile=path, recipe=_recipe_sum, outfile=out, kept_fields=kept, serial=False).cook()
            ds.append(tree_digest(out))
        return digest(ds)
    return "cook: Chef(user recipe, serial=False).cook() without, then with a kept field", call


def _op_convert(work, seed):
    from amr_kitchen.chk2plt.chk2plt import chk2plt
    from . import chkgen
    chk = os.path.join(work, "chk00007")
    shutil.rmtree(chk, ignore_errors=True)
    chkgen.gen_chk(seed=seed, path=chk, nspecies=2, nghost=1, nlevels=2, bf=2, base_blocks=(2, 3))
    out = os.path.join(work, "converted")

    def call(k):
        shutil.rmtree(out, ignore_errors=True)
        chk2plt(chk, species=["H2", "O2"], pltdir=out)
        return tree_digest(out)
    return "convert: chk2plt(checkpoint, species, pltdir) into a fresh output", call


def _op_points(work, seed):
    from amr_kitchen import PlotfileCooker
    m, path = small_plotfile(work, seed, bf=4, base_blocks=(1, 2))
    pts = []
    for lv in range(m.nlevels):
        for bi, b in enumerate(m.boxes[lv]):
            if min(b.shape) >= 3 and gen.uncovered_mask(m, lv, bi, m.nlevels - 1)[1, 1, 1]:
                pts.append([m.geo_low[d] + (b.lo[d] + 1.5) * m.dx[lv][d] for d in range(3)])
    pts = pts[:6]

    def call(k):
        pck = PlotfileCooker(path)
        return digest([np.asarray(pck["f1"](*p)).tolist() for p in pts], [np.asarray(pck[["f0", "f2"]](*p)).tolist() for p in pts])
    return f"points: {len(pts)} interior cell-centre queries (one field, two fields) on a fresh reader", call


def _op_menu(work, seed):
    m, path = small_plotfile(work, seed)
    menu = common.repo_module("amr_kitchen.menu.cli")
    mar = common.repo_module("amr_kitchen.marinate")
    import pickle, io, contextlib

    def call(k):
        buf = io.StringIO()
        with common.argv(["menu", path, "-m"]), contextlib.redirect_stdout(buf):
            menu.main()
        with common.argv(["marinate", path]), contextlib.redirect_stdout(io.StringIO()):
            mar.main()
        with open(path + ".pkl", "rb") as f:
            pck = pickle.load(f)
        os.remove(path + ".pkl")
        return digest(buf.getvalue(), pck["f2"][0][1])
    return "menu: menu -m, marinate, unpickle, one box read through the unpickled reader", call


OPS = {"whip": _op_whip, "cook": _op_cook, "convert": _op_convert, "points": _op_points, "menu": _op_menu,
       "index": _op_index, "iterate": _op_iterate, "strain": _op_strain, "combine": _op_combine,
       "slice3d": _op_slice3d, "flatten2d": _op_flatten2d, "slice_plotfile": _op_slice_plotfile,
       "taste": _op_taste, "integral": _op_integral}


def case(op, tier, seed):
    return {"kind": "endurance", "op": op, "tier": tier, "seed": seed, "sel_seed": seed}


def run_case(case, work, rec):
    what, call = OPS[case["op"]](work, case["seed"] + 4242)
    repeat(rec, case["tier"], what, call)
