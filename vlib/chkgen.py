"""Synthetic PeleLMeX checkpoints in the layout of test_assets/example_chk_3d: Header, per level
the data subsets state / gradp / I_R / divU / p, each with its own _H header, its own file
distribution and its own in-file order; state with ghost cells, nodal p."""
import os, random, shutil
import numpy as np
from . import gen

SUBS = ["I_R", "divU", "gradp", "p", "state"]


def gen_chk(seed, path, nspecies=3, nghost=None, aniso=True, time=None, nlevels=None, bf=4,
            base_blocks=(1, 3), zero_y=False, header_int=None, origin=None, no_coord=False, scale=False,
            extreme_vals=False):
    rng = random.Random(seed)
    nprng = np.random.default_rng(seed)
    if scale:      # one box of a million cells (a state FAB of more than 4 million values) beside a thin one
        for k in range(50):      # 136 = 128 + 8, but also 17 x 8: draw until the tiling holds the big box
            m = gen.gen_model(seed + 100003 * k, ndims=3, nlevels=1, nfields=1, aniso=aniso, base=[136, 96, 80],
                              sizes=[[128, 8], [96], [80]], origin=origin)
            if max(b.shape[0] for b in m.boxes[0]) == 128:
                break
    else:
        m = gen.gen_model(seed, ndims=3, nlevels=nlevels if nlevels else rng.randint(1, 3), nfields=1,
                          aniso=aniso, bf=bf, base_blocks=base_blocks, origin=origin)
    g = nghost if nghost else rng.randint(1, 3)
    m.nghost = g
    m.nspecies = nspecies
    m.time = time if time is not None else rng.choice([1.6457727058794072e-11, 0.5, 2.75, 1e-3])
    ncomp = {"state": 4 + nspecies + 3, "gradp": 3, "I_R": nspecies, "divU": 1, "p": 1}
    ghost = {"state": g, "gradp": 0, "I_R": 0, "divU": 1, "p": 1}
    if os.path.exists(path):
        shutil.rmtree(path)
    os.makedirs(path)
    m.sub = {}
    m.sublayout = {}
    with open(os.path.join(path, "Header"), "w") as h:
        h.write("Checkpoint version: 1\n%d\n%d\n" % (m.nlevels - 1, m.steps[0]))
        if header_int is not None:      # header flavour with an integer line before the time
            h.write("%d\n" % header_int)
        h.write(gen.fmt_repr(m.time) + "\n")
        h.write("3.946824488833992e-12\n3.5880222625763559e-12\n")
        h.write(" ".join(gen.fmt_17g(v) for v in m.geo_low) + " \n")
        h.write(" ".join(gen.fmt_17g(v) for v in m.geo_high) + " \n")
        for lv in range(m.nlevels):
            h.write(f"({len(m.boxes[lv])} 0\n")
            for b in m.boxes[lv]:
                h.write("((" + ",".join(map(str, b.lo)) + ") (" + ",".join(map(str, b.hi)) + ") (0,0,0))\n")
            h.write(")\n")
        # tail: ambient pressure, (coordinate system, 0,) typical values - the coordinate-system pair is not
        # always there; then the first typical value (never a whole number here) follows the pressure directly
        h.write("101325\n" if no_coord else "101325\n0\n0\n")
        for i in range(ncomp["state"]):
            h.write(gen.fmt_repr(0.001 + 0.998 * rng.random()) + "\n")
    for lv in range(m.nlevels):
        ldir = os.path.join(path, f"Level_{lv}")
        os.makedirs(ldir)
        nb = len(m.boxes[lv])
        for sub in SUBS:
            nc = ncomp[sub]
            gg = ghost[sub]
            nodal = 1 if sub == "p" else 0
            nf = rng.randint(1, min(3, nb))
            ids = rng.sample(range(30), nf)
            file_of = [ids[rng.randrange(nf)] for _ in range(nb)]
            order = list(range(nb))
            rng.shuffle(order)
            data = []
            for b in m.boxes[lv]:
                shp = tuple(s + 2 * gg + nodal for s in b.shape) + (nc,)
                a = nprng.random(shp) + 0.1
                if sub == "state":
                    a[..., 0:3] -= 0.6          # velocities of both signs
                    a[..., -2] *= 1500.0        # temp
                    if zero_y:                  # cells where every species is exactly zero (covered by an embedded boundary)
                        zc = nprng.random(shp[:-1]) < 0.05
                        zc[tuple(s // 2 for s in shp[:-1])] = True
                        a[zc, 4:4 + nspecies] = 0.0
                if sub in ("gradp", "I_R"):
                    a -= 0.6
                    if extreme_vals:
                        # extrema that are negative numbers with three-digit exponents (a vanishing negative rate, an
                        # all-negative gradient that almost vanishes in one cell, a huge outlier): 24 characters in
                        # the "%.16e" text of a min/max table
                        c0 = a[..., 0]
                        c0[...] = np.abs(c0) + 0.1
                        c0.reshape(-1)[int(nprng.integers(0, c0.size))] = -4.2e-113        # the minimum
                        cl = a[..., nc - 1]
                        cl[...] = -(np.abs(cl) + 0.1)
                        cl.reshape(-1)[int(nprng.integers(0, cl.size))] = -6.0e-105        # the maximum
                        if nc > 2:
                            a[..., 1].reshape(-1)[int(nprng.integers(0, c0.size))] = -7.5e+120
                data.append(np.asfortranarray(a))
            offsets = [None] * nb
            handles = {}
            for bi in order:
                fn = f"{sub}_D_{file_of[bi]:05d}"
                if fn not in handles:
                    handles[fn] = open(os.path.join(ldir, fn), "wb")
                fh = handles[fn]
                offsets[bi] = fh.tell()
                b = m.boxes[lv][bi]
                lo = ",".join(str(v - gg) for v in b.lo)
                hi = ",".join(str(v + gg + nodal) for v in b.hi)
                typ = "1,1,1" if nodal else "0,0,0"
                fh.write(f"{gen.FABHDR}(({lo}) ({hi}) ({typ})) {nc}\n".encode())
                fh.write(data[bi].tobytes(order="F"))
            for fh in handles.values():
                fh.close()
            with open(os.path.join(ldir, f"{sub}_H"), "w") as ch:
                ch.write(f"1\n1\n{nc}\n{gg}\n({nb} 0\n")
                for b in m.boxes[lv]:
                    typ = "1,1,1" if nodal else "0,0,0"
                    hi = [v + nodal for v in b.hi]
                    ch.write("((" + ",".join(map(str, b.lo)) + ") (" + ",".join(map(str, hi)) + f") ({typ}))\n")
                ch.write(")\n%d\n" % nb)
                for bi in range(nb):
                    ch.write(f"FabOnDisk: {sub}_D_{file_of[bi]:05d} {offsets[bi]}\n")
                ch.write("\n%d,%d\n" % (nb, nc))
                for bi in range(nb):
                    ch.write(",".join(f"{v:.16e}" for v in data[bi].min(axis=(0, 1, 2))) + ",\n")
                ch.write("\n%d,%d\n" % (nb, nc))
                for bi in range(nb):
                    ch.write(",".join(f"{v:.16e}" for v in data[bi].max(axis=(0, 1, 2))) + ",\n")
            m.sub[(lv, sub)] = data
            m.sublayout[(lv, sub)] = {"file_of": file_of, "order": order, "offsets": offsets}
    m.path = path
    return m
