"""Known-findings file: committed, read-only at run time. An *open* entry, identified by
property + mechanism (a predicate name decided from the case, never from seeds or hashes),
turns matching violations into KNOWN-FINDING lines. *fixed* entries suppress nothing."""
import os, json
from . import common

PATH = os.path.join(common.VERIF, "known_findings.json")


def load():
    if not os.path.exists(PATH):
        return []
    with open(PATH) as f:
        return json.load(f).get("findings", [])


def match(entries, prop, mech):
    if not mech:
        return None
    for e in entries:
        if e.get("status") == "open" and e.get("property") == prop and e.get("mechanism") == mech:
            return e
    return None
