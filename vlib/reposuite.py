"""Runs the repository's own test-suite from a scratch cwd (test_assets symlinked, test/ copied, so
nothing is written into the repository) with the contracts plugin on; returns (counts, fails, summary)."""
import os, sys, json, shutil, subprocess
from . import common


def run(work, which, timeout=1500):
    cwd = os.path.join(work, "suite")
    os.makedirs(cwd)
    os.symlink(os.path.join(common.REPO, "test_assets"), os.path.join(cwd, "test_assets"))
    shutil.copytree(os.path.join(common.REPO, "test"), os.path.join(cwd, "test"),
                    ignore=shutil.ignore_patterns("plt_tmp", "__pycache__"))
    if os.path.exists(os.path.join(common.REPO, "conftest.py")):
        shutil.copy(os.path.join(common.REPO, "conftest.py"), cwd)
    log = os.path.join(work, "contracts.log")
    env = dict(os.environ, PYTHONPATH=common.REPO + os.pathsep + common.VERIF, VERIF_CONTRACT_LOG=log,
               VERIF_CONTRACTS=",".join(which), PYTHONDONTWRITEBYTECODE="1", MPLBACKEND="Agg")
    p = subprocess.run([common.PY, "-m", "pytest", "-q", "-p", "no:cacheprovider", "-p", "vlib.pytest_contracts",
                        "--timeout=900", "test"], cwd=cwd, env=env, capture_output=True, text=True, timeout=timeout)
    counts, fails = {}, []
    if os.path.exists(log):
        for line in open(log):
            try:
                r = json.loads(line)
            except Exception:
                continue
            if "fail" in r:
                fails.append(r)
            elif "final_count" in r:
                counts[r["final_count"]] = counts.get(r["final_count"], 0) + r["n"]
            elif "count" in r:
                counts.setdefault("_seen_pids", set()).add(r["pid"])
    summary = [l for l in p.stdout.strip().split("\n") if "passed" in l or "failed" in l][-1:]
    npids = len(counts.pop("_seen_pids", set()))
    return counts, fails, (summary[0] if summary else p.stdout[-200:] + p.stderr[-200:]), npids
