"""M2 — real-pool stress: real multiprocessing.pool.Pool / pathos ProcessingPool subclasses that
force the worker count (the tools never pass it: it is the CPU count of the user's machine) and
wrap each task function in a picklable Delayed(fn, seed) that sleeps a few ms derived from the
argument, before and after the call, to permute start and completion order. Used in subprocess
cases only (python -m vlib.realpool <json>), so the real pickling, chunking and exception
transport stay in the loop."""
import os, sys, json, time, hashlib, tempfile, shutil, traceback
import multiprocessing, multiprocessing.pool

N = [3]
SEED = [0]
STATS = {"pool_calls": 0, "tasks": 0}


class Delayed:
    def __init__(self, fn, seed):
        self.fn = fn
        self.seed = seed
        self.__name__ = getattr(fn, "__name__", "fn")

    def __call__(self, *arg):
        h = int(hashlib.sha256((repr(self.seed) + repr(arg)[:300]).encode()).hexdigest(), 16)
        time.sleep((h % 7) * 0.003)
        r = self.fn(*arg)
        time.sleep(((h >> 8) % 5) * 0.002)
        return r


def _count(it):
    lst = list(it)
    STATS["pool_calls"] += 1
    STATS["tasks"] += len(lst)
    return lst


class NPool(multiprocessing.pool.Pool):
    def __init__(self, *a, **k):
        super().__init__(processes=N[0])

    def map(self, fn, it, chunksize=None):
        return super().map(Delayed(fn, SEED[0]), _count(it), chunksize)

    def imap(self, fn, it, chunksize=1):
        return super().imap(Delayed(fn, SEED[0]), _count(it), chunksize)

    def imap_unordered(self, fn, it, chunksize=1):
        return super().imap_unordered(Delayed(fn, SEED[0]), _count(it), chunksize)


def install():
    from pathos.multiprocessing import ProcessingPool
    from . import common

    class NPathos(ProcessingPool):
        def __init__(self, *a, **k):
            super().__init__(nodes=N[0])

        def imap(self, fn, *its, **k):
            its = [_count(i) for i in its]
            STATS["pool_calls"] -= len(its) - 1
            return super().imap(Delayed(fn, SEED[0]), *its, **k)

        def map(self, fn, *its, **k):
            its = [_count(i) for i in its]
            STATS["pool_calls"] -= len(its) - 1
            return super().map(Delayed(fn, SEED[0]), *its, **k)
    ch = common.repo_module("amr_kitchen.chef.chef")
    ck = common.repo_module("amr_kitchen.chk2plt.chk2plt")
    multiprocessing.Pool = NPool
    ch.Pool = NPathos
    ck.Pool = NPool


def main():
    """subprocess entry: argv[1] = json {scenario|history, seed, workers, delay_seed, work}"""
    spec = json.loads(sys.argv[1])
    from . import common, scenarios
    common.import_repo(scratch=spec["work"])
    N[0] = spec["workers"]
    SEED[0] = spec["delay_seed"]
    if spec.get("start"):
        # the start method of the platform: fork (Linux up to Python 3.13), spawn (macOS, Windows), forkserver
        # (Linux from 3.14): with the last two the workers re-import the modules instead of inheriting them
        multiprocessing.set_start_method(spec["start"], force=True)
        try:
            import multiprocess
            multiprocess.set_start_method(spec["start"], force=True)      # pathos' own copy of multiprocessing
        except Exception:
            pass
    install()
    work = spec["work"]
    os.makedirs(work, exist_ok=True)
    out = {"ok": True}
    try:
        with common.quiet_fds(os.path.join(work, ".stdio")):
            if "history" in spec:
                from . import histories
                out["result"] = histories.run(spec["history"], work, spec["seed"])
            else:
                sc = scenarios.by_name(spec["scenario"])
                ctx = sc.prepare(work, spec["seed"])
                o = os.path.join(work, "out")
                os.makedirs(o, exist_ok=True)
                res = sc.run(ctx, o, serial=spec.get("serial", False))
                dig, parts = scenarios.canonical(res)
                out["result"] = {"digest": dig, "parts": parts, "scalar": res.get("scalar")}
    except BaseException as e:
        out = {"ok": False, "error": f"{type(e).__name__}: {str(e)[:300]}", "trace": traceback.format_exc()[-1500:]}
    out["stats"] = dict(STATS)
    sys.stdout.write("\nRESULT " + json.dumps(out) + "\n")
    sys.stdout.flush()
    os._exit(0)


if __name__ == "__main__":
    main()
