"""Tool scenarios shared by the schedule (C12) and file-system / fault (C13) properties: each
scenario prepares small generated inputs deterministically from a seed and runs one pool user,
returning the values it returned and the paths it wrote. canonical() reduces a run to one
digest: sorted output tree (relative path + bytes, .npz member-wise) + returned values."""
import os, sys, io, hashlib, random, re
import numpy as np
from . import common, gen, chkgen, refmodel

RECIPE2 = ('import numpy as np\ndef recipe(fi, arr):\n    """sq_new df_new"""\n'
           '    return np.stack([arr[..., fi["f0"]] ** 2 + arr[..., fi["f1"]], arr[..., fi["f1"]] - arr[..., fi["f0"]]], axis=-1)\n')
RECIPE = ('def recipe(fi, arr):\n    """sq_new"""\n    return arr[..., fi["f0"]] ** 2 + arr[..., fi["f1"]]\n')


def _plt(work, name, seed, **kw):
    g = dict(seed=seed, ndims=3, nlevels=2, bf=4, base_blocks=(2, 2), maxsz=4, names=["f0", "f1", "f2"],
             maxfiles=4, payload="random")
    g.update(kw)
    if seed % 2 == 1:
        g.setdefault("file_id_base", "mixed")      # file numbers of five and six digits at one level
        if "payload" not in kw:
            # ... and data with NaN / inf / signed zeros and whole box components that are zero, uniform, exactly
            # cancelling or of trace magnitude: what a value-dependent transport or shortcut would treat differently
            g["payload"] = "special"
    m = gen.gen_model(**g)
    m.genparams = dict(g)
    # make sure some level has several files (several tasks per pool call)
    rng = random.Random(seed)
    for lv in range(m.nlevels):
        nb = len(m.boxes[lv])
        if nb >= 2 and m.nfiles(lv) < 2:
            m.layout[lv] = gen._layout(rng, nb, min(nb, 3), True, 4, g.get("file_id_base", 0))
    p = os.path.join(work, name)
    gen.write_plotfile(m, p)
    if seed % 2 == 0:
        # every other input is reached through `<symlinked directory>/../<name>`; where that path collapses
        # lexically sits a decoy: a plotfile of the same name and mesh with other data
        from . import workload
        decoy = gen.gen_model(**dict(g, data_seed=seed + 77))
        decoy.layout = m.layout
        p = workload.reach_link_dotdot(work, p, decoy)
    return m, p


def vals_digest(v):
    h = hashlib.sha256()

    def rec(x):
        if isinstance(x, np.ndarray):
            h.update(str(x.shape).encode() + str(x.dtype).encode() + np.ascontiguousarray(x).tobytes())
        elif isinstance(x, (list, tuple)):
            h.update(b"[")
            for y in x:
                rec(y)
            h.update(b"]")
        elif isinstance(x, dict):
            for k in sorted(x):
                h.update(str(k).encode()); rec(x[k])
        elif isinstance(x, float):
            h.update(repr(x).encode())
        else:
            h.update(repr(x).encode())
    rec(v)
    return h.hexdigest()[:20]


def canonical(res):
    """res = {'values':..., 'paths':[...], 'scalar': float|None, 'error': str|None}"""
    parts = {"values": vals_digest(res.get("values")),
             "trees": [refmodel.tree_digest(p) if os.path.exists(p) else "absent" for p in res.get("paths", [])],
             "error": res.get("error")}
    return common.sha(parts), parts


class Scenario:
    name = "?"
    has_serial = False

    def prepare(self, work, seed):
        raise NotImplementedError

    def run(self, ctx, out, serial=False):
        """-> {'values', 'paths', 'scalar'}"""
        raise NotImplementedError


class ReaderSelect(Scenario):
    name = "reader_select"
    has_serial = True       # an integer box index is read in the calling process: the reader's serial mode

    def prepare(self, work, seed):
        m, p = _plt(work, "plt_rs", seed)
        return {"m": m, "p": p}

    def run(self, ctx, out, serial=False):
        from amr_kitchen import PlotfileCooker
        pck = PlotfileCooker(ctx["p"])
        vals = []
        rng = random.Random(7)

        def sel(fields, lv, idx):
            """a pooled selection, or (serial) the same boxes one integer read at a time"""
            if serial:
                return [pck[fields][lv][int(i)] for i in idx]
            return pck[fields][lv][idx]

        for lv in range(ctx["m"].nlevels):
            nb = len(ctx["m"].boxes[lv])
            # serial reads in the calling process first (whatever they leave behind - open handles,
            # caches - is inherited by the workers forked for the pooled selections below)
            vals.append(pck[0][lv][0])
            vals.append(pck[[0, 1]][lv][nb - 1])
            vals.append([pck[slice(None)][lv][i] for i in range(nb)] if serial else pck[:][lv][:])
            vals.append(sel(1, lv, list(range(nb - 1, -1, -1))))
            vals.append([pck[[0, 2]][lv][i] for i in range(0, nb, 2)] if serial
                        else pck[[0, 2]][lv][np.arange(nb) % 2 == 0])
            # orders whose sorting permutation is not its own inverse: rotated, shuffled, with repeats
            rot = list(range(nb))[nb // 3 + 1:] + list(range(nb))[:nb // 3 + 1]
            shf = rng.sample(range(nb), nb)
            rep = [shf[0], shf[-1], shf[0]] + shf[1:3]
            vals.append(sel(0, lv, rot))
            vals.append(sel([1, 2], lv, np.array(shf)))
            vals.append(sel("f1", lv, rep))
            vals.append(list(pck["f1"][lv].iter(slice(None, None, 2))))
        return {"values": vals, "paths": []}


class ReaderIterate(Scenario):
    """the 'manyfiles' flavour spreads one level over more than 64 binary files (more tasks than any worker count)"""

    def __init__(self, flavour=""):
        self.flavour = flavour
        self.name = "reader_iterate" + ("_" + flavour if flavour else "")

    def prepare(self, work, seed):
        if self.flavour == "manyfiles":
            m, p = _plt(work, "plt_rim", seed, nlevels=1, bf=1, maxsz=1, base=[6, 6, 5], nfiles=90)
        else:
            m, p = _plt(work, "plt_ri", seed)
        return {"m": m, "p": p}

    def run(self, ctx, out, serial=False):
        from amr_kitchen import PlotfileCooker
        pck = PlotfileCooker(ctx["p"])
        vals = []
        for lv in range(ctx["m"].nlevels):
            vals.append(list(pck[0][lv]))
            vals.append(list(pck[0:2][lv]))
            vals.append(list(pck[[0, 2]][lv]))
        return {"values": vals, "paths": []}


class Taste(Scenario):
    name = "taste"

    def prepare(self, work, seed):
        m, p = _plt(work, "plt_t", seed)
        from . import mutate
        inf = mutate.info(p)
        bad = os.path.join(work, "plt_t_bad")
        lv = m.nlevels - 1
        mutate.mutant(p, bad, inf, [{"op": "insert", "lv": lv, "box": len(m.boxes[lv]) - 1, "n": 8}])
        # two damaged binary files at one level, both seen by the same check: which of the two the
        # failing mode reports must not depend on which task finishes first
        ctx = {"p": p, "bad": bad, "root": work}
        for lv2 in range(m.nlevels):
            fo = m.layout[lv2]["file_of"]
            if len(set(fo)) >= 2:
                b1 = 0
                b2 = next(i for i, f in enumerate(fo) if f != fo[0])
                bad2 = os.path.join(work, "plt_t_bad2")
                mutate.mutant(p, bad2, inf, [{"op": "insert", "lv": lv2, "box": b1, "n": 8},
                                             {"op": "insert", "lv": lv2, "box": b2, "n": 16}])
                ctx["bad2"] = bad2
                break
        return ctx

    def run(self, ctx, out, serial=False):
        from amr_kitchen.taste import Taster
        vals = []
        for path in (ctx["p"], ctx["bad"]):
            for kw in ({}, {"binary_data": True, "binary_shape": False}, {"boxes_coordinates": True}):
                try:
                    vals.append(bool(Taster(path, nofail=True, verbose=0, **kw)))
                except Exception as e:
                    vals.append("raised " + type(e).__name__)
        if ctx.get("bad2"):
            # failing mode: what the caller gets is the error, text included (it names the box and the file)
            for kw in ({}, {"binary_headers": False}):
                try:
                    vals.append(bool(Taster(ctx["bad2"], verbose=0, **kw)))
                except BaseException as e:
                    vals.append(f"raised {type(e).__name__}: {e}".replace(ctx["root"], "<work>"))
        return {"values": vals, "paths": []}


class ColanderS(Scenario):
    """kept fields exclude the first field and are not in header order. The 'manyfiles' flavour has a
    level spread over 14 binary files: more tasks than 4 x workers, so that a real pool ships
    several tasks per chunk (tasks of one chunk are unpickled together and share their objects)."""

    def __init__(self, flavour=""):
        self.flavour = flavour
        self.name = "colander" + ("_" + flavour if flavour else "")

    def prepare(self, work, seed):
        if self.flavour == "manyfiles":
            m, p = _plt(work, "plt_cm", seed, base_blocks=(3, 3), nfiles=14)
        else:
            m, p = _plt(work, "plt_c", seed)
        return {"p": p}

    def run(self, ctx, out, serial=False):
        from amr_kitchen.colander import Colander
        o = os.path.join(out, "strained")
        Colander(plotfile=ctx["p"], output=o, variables=["f2", "f1"]).strain()
        return {"values": None, "paths": [o]}


class CombineS(Scenario):
    def __init__(self, rel):
        self.rel = rel
        self.name = "combine_" + rel

    def prepare(self, work, seed):
        m1, p1 = _plt(work, "plt_cb1", seed, shuffle=(self.rel != "same"))
        g2 = dict(m1.genparams)
        g2.update(names=["g0", "g1"], data_seed=seed + 1)
        m2 = gen.gen_model(**g2)
        m2.layout = [dict(l) for l in m1.copy().layout]
        m2 = gen.relayout(m2, seed, self.rel)
        p2 = os.path.join(work, "plt_cb2")
        gen.write_plotfile(m2, p2)
        return {"p1": p1, "p2": p2}

    def run(self, ctx, out, serial=False):
        from amr_kitchen import PlotfileCooker
        from amr_kitchen.combine.combine import combine
        o = os.path.join(out, "combined")
        combine(PlotfileCooker(ctx["p1"]), PlotfileCooker(ctx["p2"]), pltout=o, vars1="f1 f0", vars2="g1")
        return {"values": None, "paths": [o]}


class ChefS(Scenario):
    name = "chef"
    has_serial = True

    def prepare(self, work, seed):
        m, p = _plt(work, "plt_ch", seed)
        # two new fields together with kept fields (the result rows are then wider than either alone)
        rp = os.path.join(work, "recipe_s.py")
        with open(rp, "w") as f:
            f.write(RECIPE2)
        return {"p": p, "recipe": rp}

    def run(self, ctx, out, serial=False):
        from amr_kitchen.chef import Chef
        o = os.path.join(out, "cooked")
        Chef(plotfile=ctx["p"], recipe=ctx["recipe"], outfile=o, kept_fields="f2 f0", serial=serial).cook()
        return {"values": None, "paths": [o]}


class MandolineS(Scenario):
    has_serial = True

    def __init__(self, kind):
        self.kind = kind      # 3d | 2d | plotfile
        self.name = "mandoline_" + kind

    def prepare(self, work, seed):
        if self.kind == "2d":
            m, p = _plt(work, "plt_m2", seed, ndims=2, base_blocks=(2, 3))
        else:
            m, p = _plt(work, "plt_m3", seed)
        pos = None
        if self.kind != "2d":
            dy = m.dx[0][1]
            face = m.geo_low[1] + 4 * dy          # boxes are 4 cells wide: a box face of level 0
            # an ordinary position, then planes on and a hair beside the outermost cell centres of a box
            # (within / just outside the slicer's snapping tolerance) and on the box face
            pos = [m.geo_low[1] + 0.37 * (m.geo_high[1] - m.geo_low[1]),
                   face - 0.5 * dy + 4e-7 * dy, face + 0.5 * dy - 4e-7 * dy, face - 0.5 * dy, face,
                   face - 0.5 * dy + 3e-6 * dy]
        return {"p": p, "pos": pos}

    def run(self, ctx, out, serial=False):
        from amr_kitchen.mandoline import Mandoline
        md = Mandoline(ctx["p"], fields=["f1", "f0", "grid_level"] if self.kind != "plotfile" else ["f1", "f0"],
                       serial=serial, verbose=0)
        if self.kind == "2d":
            r = md.slice(fformat="return")
            return {"values": {k: np.asarray(v) for k, v in r.items()}, "paths": []}
        if self.kind == "3d":
            vals = {}
            for j, pos in enumerate(ctx["pos"]):
                r = md.slice(normal=1, pos=pos, fformat="return")
                vals.update({f"{j}:{k}": np.asarray(v) for k, v in r.items()})
            o = os.path.join(out, "slice_arr")
            md.slice(normal=1, pos=ctx["pos"][0], outfile=o, fformat="array")
            return {"values": vals, "paths": [o + ".npz"]}
        paths = []
        for j, pos in enumerate(ctx["pos"][:3]):
            o = os.path.join(out, f"slice_plt{j}")
            md.slice(normal=1, pos=pos, outfile=o, fformat="plotfile")
            paths.append(o)
        return {"values": None, "paths": paths}


class PestleS(Scenario):
    name = "pestle"

    def prepare(self, work, seed):
        # many small boxes on the finest level, values over several decades: a sum whose grouping
        # or order depended on the schedule or on the worker count would differ in its last bits
        m, p = _plt(work, "plt_p", seed, payload="positive", names=["rho", "volFrac", "q"], bf=2, maxsz=2,
                    base=[8, 8, 4], nlevels=2, full_refine=True)
        return {"p": p}

    def run(self, ctx, out, serial=False):
        from amr_kitchen import PlotfileCooker
        from amr_kitchen.pestle.pestle import volume_integral
        v = volume_integral(PlotfileCooker(ctx["p"], ghost=True), "rho", use_volfrac=True)
        return {"values": None, "paths": [], "scalar": float(v)}


class WhipS(Scenario):
    name = "whip"

    def prepare(self, work, seed):
        # three levels: a finer level has to wait for ALL coarser ones, not only for the one below it
        m, p = _plt(work, "plt_w", seed, nlevels=3, bf=2, base_blocks=(2, 2), maxsz=4)
        return {"p": p}

    def run(self, ctx, out, serial=False):
        cli = common.repo_module("amr_kitchen.whip.cli")
        o = os.path.join(out, "ugrid.npy")
        with common.argv(["whip", "-v", "f1", "-y", "-o", o, ctx["p"]]):
            cli.main()
        return {"values": None, "paths": [o]}


class Chk2pltS(Scenario):
    name = "chk2plt"

    def prepare(self, work, seed):
        chk = os.path.join(work, "chk00007")
        m = chkgen.gen_chk(seed, chk, nspecies=2, nghost=2, nlevels=2, bf=4, base_blocks=(1, 2))
        return {"chk": chk}

    def run(self, ctx, out, serial=False):
        from amr_kitchen.chk2plt.chk2plt import chk2plt
        o = os.path.join(out, "converted")
        chk2plt(ctx["chk"], species=["H2", "O2"], gradp=True, species_reactions=True, pltdir=o)
        return {"values": None, "paths": [o]}


def all_scenarios():
    return [ReaderSelect(), ReaderIterate(), ReaderIterate("manyfiles"), Taste(), ColanderS(), ColanderS("manyfiles"), CombineS("same"), CombineS("order"),
            CombineS("other"), ChefS(), MandolineS("3d"), MandolineS("2d"), MandolineS("plotfile"),
            PestleS(), WhipS(), Chk2pltS()]


def by_name(name):
    for s in all_scenarios():
        if s.name == name:
            return s
    raise KeyError(name)
