"""Independent reference reader of plotfiles: strict, anchored-regex based, shares no code with
the repository (whose FAB header parsers all use 'the last four whitespace tokens')."""
import os, re
import numpy as np

BOXRE = r"\(\(([-\d,]+)\) \(([-\d,]+)\) \(([-\d,]+)\)\)"
FABRE = re.compile(rb"^FAB \(\(8, \(64 11 52 0 1 12 0 1023\)\),\(8, \(8 7 6 5 4 3 2 1\)\)\)"
                   + BOXRE.encode() + rb" (\d+)\n$")
FABRE_LOOSE = re.compile(BOXRE.encode() + rb" (\d+)\s*$")


class ParseError(Exception):
    pass


def ints(s):
    if isinstance(s, bytes):
        s = s.decode()
    return [int(x) for x in s.split(",")]


def parse_header(path):
    out = {}
    with open(os.path.join(path, "Header")) as h:
        L = h.read().split("\n")
    i = 0
    out["version"] = L[i]; i += 1
    nv = int(L[i]); i += 1
    out["names"] = L[i:i + nv]; i += nv
    nd = int(L[i]); i += 1
    out["ndims"] = nd
    out["time"] = float(L[i]); i += 1
    fl = int(L[i]); i += 1
    out["finest"] = fl
    out["geo_low"] = [float(x) for x in L[i].split()]; i += 1
    out["geo_high"] = [float(x) for x in L[i].split()]; i += 1
    out["ref"] = [int(x) for x in L[i].split()]; i += 1
    doms = re.findall(BOXRE, L[i]); i += 1
    if len(doms) != fl + 1:
        raise ParseError("domain line")
    out["grid_sizes"] = [[b - a + 1 for a, b in zip(ints(d[0]), ints(d[1]))] for d in doms]
    out["steps"] = [int(x) for x in L[i].split()]; i += 1
    out["dx"] = []
    for lv in range(fl + 1):
        out["dx"].append([float(x) for x in L[i].split()]); i += 1
    out["coord"] = L[i]; i += 1
    if L[i].strip() != "0":
        raise ParseError("expected 0 line")
    i += 1
    out["levels"] = []
    for lv in range(fl + 1):
        a, nb, t = L[i].split(); i += 1
        if int(a) != lv:
            raise ParseError("level id")
        nb = int(nb)
        lev = {"nboxes": nb, "time": float(t), "step": int(L[i])}
        i += 1
        pb = []
        for b in range(nb):
            bb = []
            for d in range(nd):
                lo, hi = L[i].split(); i += 1
                bb.append([float(lo), float(hi)])
            pb.append(bb)
        lev["phys"] = pb
        lev["cell_path"] = L[i]; i += 1
        out["levels"].append(lev)
    out["trailing"] = [x for x in L[i:] if x.strip()]
    return out


def parse_cell_h(cpath, nd):
    with open(cpath) as ch:
        C = ch.read().split("\n")
    j = 0
    lev = {"version": int(C[0]), "how": int(C[1]), "ncomp": int(C[2]), "nghost": int(C[3])}
    j = 4
    mm = re.match(r"^\s*\(\s*(\d+)\s+(\d+)\s*$", C[j])
    if not mm:
        raise ParseError("box count line")
    n = int(mm.group(1)); j += 1
    idx = []
    for b in range(n):
        mm = re.match(r"^\s*" + BOXRE.replace(") \\(", r")\s*\(") + r"\s*$", C[j]); j += 1
        if not mm:
            raise ParseError("index line")
        lo, hi = ints(mm.group(1)), ints(mm.group(2))
        if len(lo) != nd or len(hi) != nd:
            raise ParseError("index dims")
        idx.append((lo, hi))
    if C[j].strip() != ")":
        raise ParseError("closing paren")
    j += 1
    if int(C[j]) != n:
        raise ParseError("FabOnDisk count")
    j += 1
    fod = []
    for b in range(n):
        mm = re.match(r"^\s*FabOnDisk:\s+(\S+)\s+(\d+)\s*$", C[j]); j += 1
        if not mm:
            raise ParseError("FabOnDisk line")
        fod.append((mm.group(1), int(mm.group(2))))
    lev.update({"idx": idx, "fod": fod})
    # min / max tables
    try:
        j += 1
        nn, nc = [int(x) for x in C[j].split(",")]; j += 1
        mins = [C[j + b].split(",")[:-1] for b in range(nn)]; j += nn
        j += 1
        nn2, nc2 = [int(x) for x in C[j].split(",")]; j += 1
        maxs = [C[j + b].split(",")[:-1] for b in range(nn2)]; j += nn2
        lev["mins"] = [[float(x) for x in r] for r in mins]
        lev["maxs"] = [[float(x) for x in r] for r in maxs]
        lev["table_dims"] = (nn, nc, nn2, nc2)
    except Exception:
        lev["mins"] = lev["maxs"] = None
    return lev


def read_fab(fpath, offset, strict=True):
    """(lo, hi, ncomp, array[shape+ncomp] in F order, end offset) of the FAB at offset"""
    with open(fpath, "rb") as fh:
        fh.seek(offset)
        hdr = fh.readline()
        mm = (FABRE if strict else FABRE_LOOSE).search(hdr)
        if not mm:
            raise ParseError(f"no FAB header at {fpath}:{offset}")
        hlo, hhi = ints(mm.group(1)), ints(mm.group(2))
        nc = int(mm.group(4))
        shp = [b - a + 1 for a, b in zip(hlo, hhi)]
        cnt = int(np.prod(shp)) * nc
        raw = fh.read(cnt * 8)
        if len(raw) != cnt * 8:
            raise ParseError("short FAB")
        arr = np.frombuffer(raw, dtype="<f8").reshape(shp + [nc], order="F")
        return hlo, hhi, nc, arr, fh.tell()


def parse(path, with_data=True, limit=None):
    out = parse_header(path)
    nd = out["ndims"]
    for lv, lev in enumerate(out["levels"]):
        if limit is not None and lv > limit:
            break
        ldir = os.path.join(path, lev["cell_path"].split("/")[0])
        lev.update(parse_cell_h(os.path.join(ldir, "Cell_H"), nd))
        lev["dir"] = ldir
        if with_data:
            data = []
            for (lo, hi), (f, o) in zip(lev["idx"], lev["fod"]):
                hlo, hhi, nc, arr, _ = read_fab(os.path.join(ldir, f), o)
                data.append({"hlo": hlo, "hhi": hhi, "ncomp": nc, "arr": arr})
            lev["data"] = data
    return out


def biteq(a, b):
    a = np.ascontiguousarray(a, dtype=np.float64)
    b = np.ascontiguousarray(b, dtype=np.float64)
    return a.shape == b.shape and a.tobytes() == b.tobytes()


def file_walk(fpath):
    """sequential walk of a binary file: list of (offset, lo, hi, ncomp, end) and leftover"""
    out = []
    size = os.path.getsize(fpath)
    pos = 0
    while pos < size:
        try:
            hlo, hhi, nc, arr, end = read_fab(fpath, pos)
        except Exception:
            return out, size - pos
        out.append((pos, hlo, hhi, nc, end))
        pos = end
    return out, 0
