"""M6 — icontract post-conditions on the repository's own functions, applied from the harness
on every binding the code resolves at call time, evaluation-counted. Oracles are independent
(refparse / numpy), never the repository's own helpers."""
import os, re, sys
import numpy as np
from . import common, refparse

COUNTS = {}
FAILS = []


class PostBroken(Exception):
    pass


RAISE = False   # record-only by default: the monitored code's behaviour is left unchanged
LOG = os.environ.get("VERIF_CONTRACT_LOG")     # append-only file: forked pool workers report too


def _log(rec):
    if LOG:
        import json
        try:
            fd = os.open(LOG, os.O_WRONLY | os.O_CREAT | os.O_APPEND, 0o644)
            os.write(fd, (json.dumps(rec) + "\n").encode())
            os.close(fd)
        except OSError:
            pass


def _cnt(k):
    COUNTS[k] = COUNTS.get(k, 0) + 1
    if LOG and COUNTS[k] % 50 == 1:
        _log({"count": k, "n": COUNTS[k], "pid": os.getpid()})


def _fail(name, detail):
    FAILS.append({"contract": name, "detail": str(detail)[:500]})
    _log({"fail": name, "detail": str(detail)[:500], "pid": os.getpid()})
    return not RAISE


_HRE = re.compile(refparse.BOXRE + r" (\d+)\s*$")


def _hdr_shape(h):
    if isinstance(h, bytes):
        h = h.decode("ascii")
    m = _HRE.search(h)
    lo, hi = refparse.ints(m.group(1)), refparse.ints(m.group(2))
    return lo, hi, int(m.group(4))


# ---- FAB header parsers ---------------------------------------------------------------
def shape_from_header_ok(h, result):
    _cnt("shape_from_header")
    try:
        lo, hi, nc = _hdr_shape(h)
    except Exception:
        return True   # not a header the independent grammar accepts: no claim
    exp = [b - a + 1 for a, b in zip(lo, hi)] + [nc]
    return list(int(v) for v in result) == exp or _fail("shape_from_header", (h, list(result)))


def indices_from_header_ok(h, result):
    _cnt("indices_from_header")
    try:
        lo, hi, nc = _hdr_shape(h)
    except Exception:
        return True
    return ([int(v) for v in result[0]] == lo and [int(v) for v in result[1]] == hi) or \
        _fail("indices_from_header", (h, result))


def header_from_indices_ok(start, stop, nfields, result):
    _cnt("header_from_indices")
    m = refparse.FABRE.match(result)
    if not m:
        return _fail("header_from_indices", result)
    return (refparse.ints(m.group(1)) == [int(v) for v in start] and
            refparse.ints(m.group(2)) == [int(v) for v in stop] and
            int(m.group(4)) == int(nfields)) or _fail("header_from_indices", result)


# ---- box readers: result == independent slice of the bytes named by the arguments ------
def _fab(path, off):
    return refparse.read_fab(path, int(off), strict=False)[3]


def _comps(farg, nc):
    if isinstance(farg, (int, np.integer)):
        return int(farg), True
    if isinstance(farg, slice):
        return list(range(*farg.indices(nc))), False
    return [int(v) for v in farg], False


def read_box_ok(args, result):
    _cnt("mp_read_box")
    try:
        arr = _fab(args[0], args[1])
    except Exception:
        return True
    comps, single = _comps(args[2], arr.shape[-1])
    if single:
        if not (0 <= comps < arr.shape[-1]):
            return _fail("mp_read_box", f"component {comps} outside 0..{arr.shape[-1]-1} returned data")
        exp = arr[..., comps]
    else:
        if any(not (0 <= c < arr.shape[-1]) for c in comps):
            return _fail("mp_read_box", f"components {comps} outside range returned data")
        exp = arr[..., comps]
    return refparse.biteq(exp, result) or _fail("mp_read_box", (args[0], int(args[1]), repr(args[2])))


def read_bfile_ok(args, result):
    _cnt("mp_read_bfile")
    walk, left = refparse.file_walk(args[0])
    if left:
        return True
    if len(result) != len(walk):
        return _fail("mp_read_bfile", f"{len(result)} boxes returned, file holds {len(walk)}")
    for (off, lo, hi, nc, end), got in zip(walk, result):
        arr = _fab(args[0], off)
        comps, single = _comps(args[1], nc)
        if not refparse.biteq(arr[..., comps], got):
            return _fail("mp_read_bfile", (args[0], off, repr(args[1])))
    return True


def expand_array_ok(arr, factor, result):
    _cnt("expand_array")
    return np.array_equal(result, np.kron(arr, np.ones((factor, factor))), equal_nan=True) or \
        _fail("expand_array", (arr.shape, factor))


def expand_array3d_ok(arr, factor, result):
    _cnt("expand_array3d")
    exp = np.kron(arr, np.ones((factor, factor, factor)))
    return np.array_equal(result, exp, equal_nan=True) or _fail("expand_array3d", (arr.shape, factor))


def box_array_ok(self, result):
    """compute_box_array: occupancy map agrees cell-for-cell with the boxes (C09 at the source)"""
    _cnt("compute_box_array")
    box_arrays, _ = result
    for lv in range(self.limit_level + 1):
        gs = [int(v) for v in self.grid_sizes[lv]]
        ba = box_arrays[lv]
        if any(gs[d] % ba.shape[d] for d in range(3)):
            return _fail("compute_box_array", f"lv {lv}: map shape {ba.shape} does not divide grid {gs}")
        rez = [gs[d] // ba.shape[d] for d in range(3)]
        occ = -np.ones(gs, dtype=int)
        for i, idx in enumerate(self.cells[lv]["indexes"]):
            occ[idx[0][0]:idx[1][0] + 1, idx[0][1]:idx[1][1] + 1, idx[0][2]:idx[1][2] + 1] = i
        exp = np.repeat(np.repeat(np.repeat(ba, rez[0], 0), rez[1], 1), rez[2], 2)
        # only coverage (a box / no box) is what the volume integral relies on
        if exp.shape != occ.shape or not np.array_equal(exp >= 0, occ >= 0):
            bad = int(np.sum((exp >= 0) != (occ >= 0))) if exp.shape == occ.shape else -1
            return _fail("compute_box_array", f"lv {lv}: {bad} cells wrongly marked covered/uncovered "
                                              f"(map resolution {rez})")
    return True


def cooker_init_ok(self):
    """PlotfileCooker.__init__: attributes equal an independent parse of the same directory"""
    _cnt("PlotfileCooker.__init__")
    try:
        r = refparse.parse(self.pfile, with_data=False,
                           limit=self.limit_level if hasattr(self, "cells") else -1)
    except Exception:
        return True   # directory the strict grammar does not accept: no claim
    probs = compare_cooker(self, r)
    return not probs or _fail("PlotfileCooker.__init__", probs[:3])


def compare_cooker(pck, r, maxmins=None):
    """list of differences between a PlotfileCooker and a refparse result"""
    probs = []
    L = pck.limit_level
    names = r["names"]
    keys = list(pck.fields.keys())
    if len(keys) != len(names):
        probs.append(f"fields: {len(keys)} keys for {len(names)} names")
    else:
        seen = set()
        for i, (k, n) in enumerate(zip(keys, names)):
            if pck.fields[k] != i:
                probs.append(f"field {k} index {pck.fields[k]} != {i}")
            if n not in seen:
                if k != n:
                    probs.append(f"field {i}: key {k!r} != name {n!r}")
            elif not k.startswith(n) or k in seen:
                probs.append(f"repeated field {i}: key {k!r} for name {n!r}")
            seen.add(k)
    if pck.ndims != r["ndims"]:
        probs.append("ndims")
    if not (pck.time == r["time"] or (pck.time != pck.time and r["time"] != r["time"])):
        probs.append(f"time {pck.time} != {r['time']}")
    if list(pck.geo_low) != r["geo_low"] or list(pck.geo_high) != r["geo_high"]:
        probs.append("geometry")
    if L > r["finest"] or L < 0:
        probs.append(f"limit_level {L}")
        return probs
    if [list(map(float, d)) for d in pck.dx[:L + 1]] != r["dx"][:L + 1]:
        probs.append("dx")
    if [[int(v) for v in g] for g in pck.grid_sizes[:L + 1]] != r["grid_sizes"][:L + 1]:
        probs.append("grid_sizes")
    if len(pck.boxes) != L + 1:
        probs.append(f"boxes has {len(pck.boxes)} levels, limit {L}")
    for lv in range(min(L + 1, len(pck.boxes))):
        if [[list(map(float, d)) for d in b] for b in pck.boxes[lv]] != r["levels"][lv]["phys"]:
            probs.append(f"boxes lv {lv}")
    if len(pck.grids) != L + 1:
        probs.append("grids levels")
    else:
        for lv in range(L + 1):
            for d in range(r["ndims"]):
                n = r["grid_sizes"][lv][d]
                exp = r["geo_low"][d] + (np.arange(n) + 0.5) * r["dx"][lv][d]
                g = np.asarray(pck.grids[lv][d])
                if g.shape != exp.shape or not np.allclose(g, exp, rtol=1e-12, atol=1e-12 * max(1.0, abs(exp).max())):
                    probs.append(f"grids lv {lv} dim {d}")
    if hasattr(pck, "cells"):
        if len(pck.cells) != L + 1:
            probs.append(f"cells has {len(pck.cells)} levels, limit {L}")
        for lv in range(min(L + 1, len(pck.cells))):
            lev = r["levels"][lv]
            if "idx" not in lev:
                continue
            c = pck.cells[lv]
            if [([int(v) for v in a], [int(v) for v in b]) for a, b in c["indexes"]] != \
                    [(a, b) for a, b in lev["idx"]]:
                probs.append(f"indexes lv {lv}")
            if [os.path.basename(f) for f in c["files"]] != [f for f, o in lev["fod"]]:
                probs.append(f"files lv {lv}")
            if any(os.path.normpath(os.path.dirname(f)) != os.path.normpath(lev["dir"]) for f in c["files"]):
                probs.append(f"file dirs lv {lv}")
            if [int(o) for o in c["offsets"]] != [o for f, o in lev["fod"]]:
                probs.append(f"offsets lv {lv}")
            want = maxmins if maxmins is not None else ("mins" in c)
            if want:
                if "mins" not in c or "maxs" not in c:
                    probs.append(f"mins/maxs missing lv {lv}")
                elif lev.get("mins") is not None:
                    for fi, k in enumerate(keys):
                        emin = np.array([row[fi] for row in lev["mins"]])
                        emax = np.array([row[fi] for row in lev["maxs"]])
                        if not (np.array_equal(np.asarray(c["mins"][k], dtype=float), emin, equal_nan=True) and
                                np.array_equal(np.asarray(c["maxs"][k], dtype=float), emax, equal_nan=True)):
                            probs.append(f"min/max lv {lv} field {k}")
                            break
    return probs


def _ensure(fn, cond):
    """post-condition that can never disturb the monitored code: an error inside the oracle itself
    (e.g. the function's signature changed in a refactor) is counted and the contract holds"""
    import icontract, functools, inspect

    @functools.wraps(cond)
    def safe(*a, **k):
        try:
            return cond(*a, **k)
        except Exception:
            _cnt("oracle_error:" + cond.__name__)
            return True
    safe.__signature__ = inspect.signature(cond)
    return icontract.ensure(safe, error=PostBroken)(fn)


def install(which=("headers", "readers", "expand", "box_array", "init")):
    """wrap and rebind. Returns names installed."""
    common.ensure_deps()
    U = common.repo_module("amr_kitchen.utils")
    PC = common.repo_module("amr_kitchen.plotfile_cooker")
    mods = [common.repo_module(n) for n in (
        "amr_kitchen.utils", "amr_kitchen.plotfile_cooker", "amr_kitchen.taste.taste",
        "amr_kitchen.combine.combine", "amr_kitchen.chef.chef", "amr_kitchen.pestle.pestle",
        "amr_kitchen.colander.colander", "amr_kitchen.whip.cli", "amr_kitchen.chk2plt.chk2plt",
        "amr_kitchen.chk2plt.checkpoint_reader", "amr_kitchen.mandoline.mandoline",
        "amr_kitchen.mandoline.blades", "amr_kitchen.mandoline.utils")]
    done = []

    def rebind(name, wrapped, orig):
        for mod in mods:
            if getattr(mod, name, None) is orig:
                setattr(mod, name, wrapped)
        done.append(name)
    if "headers" in which:
        for name, cond in (("shape_from_header", shape_from_header_ok),
                           ("indices_from_header", indices_from_header_ok),
                           ("header_from_indices", header_from_indices_ok)):
            orig = getattr(U, name, None)
            if orig is None:
                continue      # renamed by a refactor: the contract is simply not installed
            rebind(name, _ensure(orig, cond), orig)
    if "readers" in which:
        for name in ("mp_read_box_single_field", "mp_read_box_slice_field", "mp_read_box_index_field"):
            orig = getattr(PC, name, None)
            if orig is not None:
                rebind(name, _ensure(orig, read_box_ok), orig)
        for name in ("mp_read_bfile_single_field", "mp_read_bfile_slice_field", "mp_read_bfile_index_field"):
            orig = getattr(PC, name, None)
            if orig is not None:
                rebind(name, _ensure(orig, read_bfile_ok), orig)
    if "expand" in which:
        MU = common.repo_module("amr_kitchen.mandoline.utils")
        orig = getattr(MU, "expand_array", None)
        if orig is not None:
            rebind("expand_array", _ensure(orig, expand_array_ok), orig)
        orig = getattr(U, "expand_array3d", None)
        if orig is not None:
            rebind("expand_array3d", _ensure(orig, expand_array3d_ok), orig)
    if "box_array" in which:
        if hasattr(PC.PlotfileCooker, "compute_box_array"):
            PC.PlotfileCooker.compute_box_array = _ensure(PC.PlotfileCooker.compute_box_array, box_array_ok)
            done.append("compute_box_array")
    if "init" in which:
        orig_init = PC.PlotfileCooker.__init__

        def init(self, *a, **k):
            orig_init(self, *a, **k)
            n = len(FAILS)
            if not cooker_init_ok(self) or (RAISE and len(FAILS) > n):
                raise PostBroken("PlotfileCooker.__init__: attributes differ from an independent "
                                 f"parse of {self.pfile}: {FAILS[-1]['detail']}")
        init.__wrapped__ = orig_init
        PC.PlotfileCooker.__init__ = init
        done.append("PlotfileCooker.__init__")
    return done
