"""Subprocess entry for C13's real-pool fault tier: python -m vlib.realfault <json>
{tool, seed, work, workers, fault: null | {substr, kind, nth}} -> RESULT {raised, outputs digest,
points (fault-free run only)}. The fault state is inherited by the forked pool workers, so a
failing write inside a worker must travel back through the real pool to the caller."""
import os, sys, json, traceback


def main():
    spec = json.loads(sys.argv[1])
    from . import common, realpool, faults
    common.import_repo(scratch=spec["work"])
    from .props import c13
    realpool.N[0] = spec["workers"]
    realpool.SEED[0] = 3
    realpool.install()
    work = spec["work"]
    os.makedirs(work, exist_ok=True)
    out = {}
    try:
        with common.quiet_fds(os.path.join(work, ".stdio")):
            sb = c13.Sandbox(work, spec["seed"], tiny=False)
            c13.make_refY(sb)
            tool = spec["tool"]
            outarg, out_abs = (None, None) if tool == "marinate" else c13.explicit_out(tool, sb, None)
            outs = [out_abs, out_abs + ".npz", out_abs + ".npy"] if out_abs else [sb.plt + ".pkl"]
            faults.install()
            faults.S.reset()
            if spec.get("fault"):
                faults.S.path_substr = spec["fault"]["substr"]
                faults.S.path_kind = spec["fault"]["kind"]
                faults.S.path_nth = spec["fault"]["nth"]
            raised = None
            try:
                c13.invoke(tool, "api" if tool != "whip" else "cli", sb, "abs", outarg)
            except (Exception, SystemExit) as e:
                if not (isinstance(e, SystemExit) and e.code in (0, None)):      # exit status 0 = a normal return
                    raised = f"{type(e).__name__}: {str(e)[:160]}"
            finally:
                faults.uninstall()
            out = {"ok": True, "raised": raised, "digest": c13.out_digest(outs),
                   "root": sb.root, "pool_tasks": realpool.STATS["tasks"]}
            if not spec.get("fault"):
                # the parent's own points; the workers' output files are found from the output tree
                files = []
                for o in outs:
                    if os.path.isdir(o):
                        for r, d, f in os.walk(o):
                            files += [os.path.relpath(os.path.join(r, x), sb.root) for x in f]
                    elif os.path.exists(o):
                        files.append(os.path.relpath(o, sb.root))
                out["files"] = sorted(files)
    except BaseException as e:
        out = {"ok": False, "error": f"{type(e).__name__}: {str(e)[:300]}", "trace": traceback.format_exc()[-1200:]}
    sys.stdout.write("\nRESULT " + json.dumps(out) + "\n")
    sys.stdout.flush()
    os._exit(0)


if __name__ == "__main__":
    main()
