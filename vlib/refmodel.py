"""Reference results of the tools as pure operations on models, and the comparator
'plotfile on disk == expected contents' used by the writer properties (C05 C06 C11 C14 C16 C17).
Written from the property statements; shares no code with the repository."""
import os
import numpy as np
from . import refparse, gen


class Expect:
    """expected contents of an output plotfile"""

    def __init__(self, names, ndims, time, geo_low, geo_high, dx, grid_sizes, levels):
        self.names = list(names)
        self.ndims = ndims
        self.time = time
        self.geo_low = list(geo_low)
        self.geo_high = list(geo_high)
        self.dx = [list(d) for d in dx]
        self.grid_sizes = [list(g) for g in grid_sizes]
        self.levels = levels   # per level: list of {lo, hi, arr, phys, mins, maxs}

    def copy(self):
        return Expect(self.names, self.ndims, self.time, self.geo_low, self.geo_high, self.dx,
                      self.grid_sizes, [[dict(b) for b in lv] for lv in self.levels])


def header_row(vals):
    """the floats a reader gets back from a min/max row written with %.16e"""
    return [float(f"{v:.16e}") for v in vals]


def from_model(m, limit=None):
    L = m.nlevels - 1 if limit is None else limit
    levels = []
    for lv in range(L + 1):
        boxes = []
        for bi, b in enumerate(m.boxes[lv]):
            arr = m.data[lv][bi]
            boxes.append({"lo": list(b.lo), "hi": list(b.hi), "arr": arr, "phys": m.phys_box(lv, bi),
                          "mins": header_row(gen.box_min(arr)), "maxs": header_row(gen.box_max(arr))})
        levels.append(boxes)
    return Expect(m.names, m.ndims, m.time, m.geo_low, m.geo_high, m.dx[:L + 1], m.grid_sizes[:L + 1], levels)


def from_disk(path, limit=None):
    """Expect built from an existing (trusted-parse) plotfile — for real assets / chained steps"""
    r = refparse.parse(path, limit=limit)
    L = r["finest"] if limit is None else limit
    levels = []
    for lv in range(L + 1):
        lev = r["levels"][lv]
        boxes = []
        for bi, ((lo, hi), d) in enumerate(zip(lev["idx"], lev["data"])):
            boxes.append({"lo": lo, "hi": hi, "arr": d["arr"], "phys": lev["phys"][bi],
                          "mins": lev["mins"][bi] if lev["mins"] else None,
                          "maxs": lev["maxs"][bi] if lev["maxs"] else None})
        levels.append(boxes)
    return Expect(r["names"], r["ndims"], r["time"], r["geo_low"], r["geo_high"], r["dx"][:L + 1],
                  r["grid_sizes"][:L + 1], levels)


def select(exp, comps, names=None, limit=None):
    """pure colander: keep components comps (in that order) and levels 0..limit"""
    e = exp.copy()
    L = len(e.levels) - 1 if limit is None else limit
    e.levels = e.levels[:L + 1]
    e.dx = e.dx[:L + 1]; e.grid_sizes = e.grid_sizes[:L + 1]
    e.names = names if names is not None else [exp.names[c] for c in comps]
    for lv in e.levels:
        for b in lv:
            b["arr"] = b["arr"][..., comps]
            if b["mins"] is not None:
                b["mins"] = [b["mins"][c] for c in comps]
                b["maxs"] = [b["maxs"][c] for c in comps]
    return e


def concat(e1, comps1, e2, comps2):
    """pure combine: per box (same index range) components comps1 of e1 then comps2 of e2"""
    e = e1.copy()
    e.names = [e1.names[c] for c in comps1] + [e2.names[c] for c in comps2]
    for lv, (l1, l2) in enumerate(zip(e.levels, e2.levels)):
        by = {(tuple(b["lo"]), tuple(b["hi"])): b for b in l2}
        for b in l1:
            o = by[(tuple(b["lo"]), tuple(b["hi"]))]
            b["arr"] = np.concatenate([b["arr"][..., comps1], o["arr"][..., comps2]], axis=-1)
            if b["mins"] is not None and o["mins"] is not None:
                b["mins"] = [b["mins"][c] for c in comps1] + [o["mins"][c] for c in comps2]
                b["maxs"] = [b["maxs"][c] for c in comps1] + [o["maxs"][c] for c in comps2]
            else:
                b["mins"] = b["maxs"] = None
    return e


def true_extrema(e):
    """replace the expected min/max rows by the extrema of the expected data as str(float)
    round-trips them (what chef / mandoline / chk2plt are required to write)"""
    for lv in e.levels:
        for b in lv:
            with np.errstate(all="ignore"):
                b["mins"] = [float(np.min(b["arr"][..., c])) for c in range(b["arr"].shape[-1])]
                b["maxs"] = [float(np.max(b["arr"][..., c])) for c in range(b["arr"].shape[-1])]
    return e


def _feq(a, b):
    return a == b or (a != a and b != b)


def compare(path, exp, check_minmax=True, data_rtol=None, phys_tol=0.0, rtol_comps=None,
            minmax_rtol=0.0):
    """list of differences between the plotfile at `path` and the expected contents.
    data_rtol None => bit equality on every component; rtol_comps = {comp index: rtol}"""
    probs = []
    try:
        r = refparse.parse(path)
    except Exception as e:
        return [f"output does not parse as a plotfile: {type(e).__name__}: {e}"]
    if r["names"] != exp.names:
        probs.append(f"field names {r['names'][:8]} != expected {exp.names[:8]}")
    if r["ndims"] != exp.ndims:
        probs.append("ndims")
    if not _feq(r["time"], exp.time):
        probs.append(f"time {r['time']!r} != {exp.time!r}")
    if r["finest"] != len(exp.levels) - 1:
        probs.append(f"finest level {r['finest']} != {len(exp.levels) - 1}")
        return probs
    if r["geo_low"] != exp.geo_low or r["geo_high"] != exp.geo_high:
        probs.append(f"domain bounds {r['geo_low']} {r['geo_high']}")
    if r["dx"] != exp.dx:
        probs.append("cell sizes")
    if r["grid_sizes"] != exp.grid_sizes:
        probs.append("grid sizes")
    if r["trailing"]:
        probs.append("trailing text in Header")
    nc = len(exp.names)
    for lv, (lev, elev) in enumerate(zip(r["levels"], exp.levels)):
        if not _feq(lev["time"], exp.time):
            probs.append(f"level {lv} time")
        if lev["ncomp"] != nc:
            probs.append(f"level {lv} header component count {lev['ncomp']} != {nc}")
        got = {}
        for bi, ((lo, hi), d) in enumerate(zip(lev["idx"], lev["data"])):
            k = (tuple(lo), tuple(hi))
            if k in got:
                probs.append(f"level {lv}: box {k} twice")
            got[k] = bi
            if d["hlo"] != lo or d["hhi"] != hi:
                probs.append(f"level {lv} box {bi}: FAB header names {d['hlo']}..{d['hhi']}, level header {lo}..{hi}")
        if len(lev["idx"]) != lev["nboxes"]:
            probs.append(f"level {lv}: {len(lev['idx'])} boxes in level header, {lev['nboxes']} in Header")
        want = {(tuple(b["lo"]), tuple(b["hi"])): b for b in elev}
        if set(got) != set(want):
            probs.append(f"level {lv}: boxes differ ({len(got)} written, {len(want)} expected)")
            continue
        for k, b in want.items():
            bi = got[k]
            arr = lev["data"][bi]["arr"]
            if arr.shape != b["arr"].shape:
                probs.append(f"level {lv} box {k}: shape {arr.shape} != {b['arr'].shape}")
                continue
            for c in range(nc):
                rt = (rtol_comps or {}).get(c, data_rtol)
                a, e = arr[..., c], b["arr"][..., c]
                if rt is None:
                    if not refparse.biteq(a, e):
                        probs.append(f"level {lv} box {k} component {c} ({exp.names[c]}): values differ "
                                     f"({_ncells_diff(a, e)} of {a.size} cells)")
                        break
                else:
                    if not np.allclose(a, e, rtol=rt, atol=rt * float(np.max(np.abs(e)) if e.size else 0), equal_nan=True):
                        probs.append(f"level {lv} box {k} component {c} ({exp.names[c]}): values differ beyond rtol {rt}")
                        break
            ph = lev["phys"][bi] if bi < len(lev["phys"]) else None
            if ph is None or any(abs(ph[d][s] - b["phys"][d][s]) > phys_tol for d in range(exp.ndims) for s in (0, 1)):
                probs.append(f"level {lv} box {k}: physical bounds {ph} != {b['phys']}")
            if check_minmax and b.get("mins") is not None:
                if lev["mins"] is None or bi >= len(lev["mins"]):
                    probs.append(f"level {lv}: min/max tables missing")
                    break
                for nm, row, erow in (("min", lev["mins"][bi], b["mins"]), ("max", lev["maxs"][bi], b["maxs"])):
                    if len(row) != len(erow) or not all(
                            _feq(x, y) or (minmax_rtol and abs(x - y) <= minmax_rtol * max(abs(x), abs(y)))
                            for x, y in zip(row, erow)):
                        probs.append(f"level {lv} box {k}: {nm} row {row[:4]} != expected {erow[:4]}")
                        break
        if len(probs) > 12:
            break
    if not probs:
        probs += ["format: " + x for x in conform(path, r)]
    return probs


def conform(path, r=None, ratio=2):
    """Format conformance of a *written* plotfile, beyond what the content comparison needs: the lines another
    reader of the format (AMReX's own tools, a strict parser) depends on. -> list of problems"""
    import re
    probs = []
    if r is None:
        try:
            r = refparse.parse(path, with_data=False)
        except Exception as e:
            return [f"output does not parse as a plotfile: {type(e).__name__}: {e}"]
    fl = r["finest"]
    if not re.match(r"^\S+-V\d+\.\d+$", r["version"]):
        probs.append(f"version line {r['version']!r}")
    if len(r["ref"]) < fl or any(x != ratio for x in r["ref"][:fl]):
        probs.append(f"refinement-ratio line {r['ref']} for {fl + 1} levels")
    if len(r["steps"]) != fl + 1:
        probs.append(f"step line has {len(r['steps'])} entries for {fl + 1} levels")
    if r["coord"].strip() != "0":
        probs.append(f"coordinate-system line {r['coord']!r}")
    if len(r["dx"]) != fl + 1 or any(len(d) != r["ndims"] for d in r["dx"]):
        probs.append("cell-size lines")
    for lv, lev in enumerate(r["levels"]):
        if not re.match(r"^[^/\s]+/Cell$", lev["cell_path"]) or not os.path.isdir(os.path.join(path, lev["cell_path"].split("/")[0])):
            probs.append(f"level {lv}: data path line {lev['cell_path']!r}")
        if "version" not in lev:
            continue
        if lev["version"] != 1 or lev["how"] not in (0, 1) or lev["nghost"] != 0:
            probs.append(f"level {lv} header starts {lev['version']} / {lev['how']} / {lev['ncomp']} / {lev['nghost']}")
        if lev["mins"] is not None and lev.get("table_dims") and \
                lev["table_dims"] != (len(lev["idx"]), lev["ncomp"], len(lev["idx"]), lev["ncomp"]):
            probs.append(f"level {lv}: min/max tables announce {lev['table_dims']}, level has {len(lev['idx'])} boxes x {lev['ncomp']} fields")
        byfile = {}
        for f, o in lev["fod"]:
            byfile.setdefault(f, []).append(o)
            if not re.match(r"^Cell_D_\d{5,}$", f):
                probs.append(f"level {lv}: binary file name {f!r}")
        for f, offs in byfile.items():
            fp = os.path.join(lev["dir"], f)
            if not os.path.isfile(fp):
                probs.append(f"level {lv}: {f} missing")
                continue
            walk, left = refparse.file_walk(fp)
            starts = sorted(w[0] for w in walk)
            if left or starts != sorted(offs):
                probs.append(f"level {lv}: {f} is not exactly the FABs the level header records "
                             f"({len(starts)} FABs found from byte 0, {left} bytes unaccounted for, {len(offs)} recorded)")
        if len(probs) > 6:
            break
    return probs


def _ncells_diff(a, e):
    return int(np.sum(np.ascontiguousarray(a).view(np.uint64) != np.ascontiguousarray(e).view(np.uint64)))


def tree_digest(path):
    """sha256 over the sorted tree (relative path + bytes; .npz member-wise)"""
    import hashlib, zipfile
    h = hashlib.sha256()
    if os.path.isfile(path):
        items = [("", path)]
    else:
        items = []
        for root, dirs, files in os.walk(path):
            dirs.sort()
            for f in sorted(files):
                p = os.path.join(root, f)
                items.append((os.path.relpath(p, path), p))
    for rel, p in items:
        h.update(rel.encode() + b"\0")
        if p.endswith(".npz"):
            with zipfile.ZipFile(p) as z:
                for n in sorted(z.namelist()):
                    h.update(n.encode() + b"\0" + z.read(n))
        else:
            with open(p, "rb") as f:
                h.update(f.read())
        h.update(b"\1")
    return h.hexdigest()[:20]


def to_model(exp):
    """gen.Model view of expected contents (for the covering-grid / integral reference ops)"""
    m = gen.Model()
    m.ndims = exp.ndims
    m.names = list(exp.names)
    m.nfields = len(m.names)
    m.nlevels = len(exp.levels)
    m.time = exp.time
    m.geo_low, m.geo_high = list(exp.geo_low), list(exp.geo_high)
    m.dx = [list(d) for d in exp.dx]
    m.grid_sizes = [list(g) for g in exp.grid_sizes]
    m.boxes = [[gen.Box(b["lo"], b["hi"]) for b in lv] for lv in exp.levels]
    m.data = [[b["arr"] for b in lv] for lv in exp.levels]
    return m
