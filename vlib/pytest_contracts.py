"""pytest plugin: the M6 contracts on the real functions while the repository's OWN tests run
(real AMReX assets, real multiprocessing pools). Loaded with `-p vlib.pytest_contracts`; results
go to the append-only file named by VERIF_CONTRACT_LOG (pool workers included)."""
import os, sys


def pytest_configure(config):
    from vlib import common, contracts
    common.import_repo()
    which = tuple(os.environ.get("VERIF_CONTRACTS", "headers,readers,expand,box_array,init").split(","))
    contracts.install(which)


def pytest_unconfigure(config):
    from vlib import contracts
    for k, v in contracts.COUNTS.items():
        contracts._log({"final_count": k, "n": v, "pid": os.getpid()})
