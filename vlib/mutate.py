"""M9 — corruption operators with enumerable sites. Mutants are classified by strict.py, never
by which operator produced them (cancelling pairs / equivalent mutants cannot cause alarms)."""
import os, re, shutil
import numpy as np
from . import refparse


def info(path):
    """layout facts of a well-formed plotfile used to enumerate sites"""
    r = refparse.parse(path, with_data=False)
    levels = []
    for lv, lev in enumerate(r["levels"]):
        boxes = []
        files = {}
        for bi, ((lo, hi), (fn, off)) in enumerate(zip(lev["idx"], lev["fod"])):
            fp = os.path.join(lev["dir"], fn)
            with open(fp, "rb") as f:
                f.seek(off)
                hline = f.readline()
                hl = len(hline)
            shape = [b - a + 1 for a, b in zip(lo, hi)]
            pl = int(np.prod(shape)) * lev["ncomp"] * 8
            boxes.append({"bi": bi, "file": fn, "off": off, "hlen": hl, "plen": pl, "lo": lo, "hi": hi, "tail": _tail_marks(hline),
                          "shape": shape})
            files.setdefault(fn, []).append(bi)
        for fn in files:
            files[fn].sort(key=lambda b: boxes[b]["off"])
        levels.append({"boxes": boxes, "files": files, "dir": lev["dir"], "ncomp": lev["ncomp"]})
    return {"levels": levels, "ndims": r["ndims"], "header": r}


# ------------------------------------------------------------------ site enumeration
def sites_c04(inf, levels=None, coords=False):
    """every single-site corruption of the C04 classes -> list of mutation descriptors"""
    out = []
    nd = inf["ndims"]
    for lv, L in enumerate(inf["levels"]):
        if levels is not None and lv not in levels:
            continue
        for fn, bl in L["files"].items():
            last = L["boxes"][bl[-1]]
            out.append({"op": "delete_file", "lv": lv, "file": fn})
            # the name is still there, but it is a directory (what a half-finished restore / sync leaves)
            out.append({"op": "file_to_dir", "lv": lv, "file": fn, "how": "empty"})
            out.append({"op": "file_to_dir", "lv": lv, "file": fn, "how": "holding_the_file"})
            for how in ("1", "8", "half", "allbut1", "all", "lastfab", "intolasthdr"):
                out.append({"op": "truncate", "lv": lv, "file": fn, "how": how})
            for how in ("1", "8", "100", "fab"):
                out.append({"op": "extend", "lv": lv, "file": fn, "how": how})
        for b in L["boxes"]:
            bi = b["bi"]
            row = b["shape"][0] * 8
            comp = int(np.prod(b["shape"])) * 8
            for nbytes in sorted({3, 8, row, comp}):
                out.append({"op": "insert", "lv": lv, "box": bi, "n": nbytes})
                if nbytes < b["plen"]:
                    out.append({"op": "remove", "lv": lv, "box": bi, "n": nbytes})
            for d in range(nd):
                out.append({"op": "fabhdr", "lv": lv, "box": bi, "what": "hi", "dim": d, "delta": 1})
                out.append({"op": "fabhdr", "lv": lv, "box": bi, "what": "lo", "dim": d, "delta": 1 if b["shape"][d] > 1 else -1})
            for d in range(nd):     # same shape, moved by one / two cells: only the index comparison can see it
                out.append({"op": "fabhdr", "lv": lv, "box": bi, "what": "shift", "dim": d, "delta": 1})
                out.append({"op": "fabhdr", "lv": lv, "box": bi, "what": "shift", "dim": d, "delta": -2})
            out.append({"op": "fabhdr", "lv": lv, "box": bi, "what": "ncomp", "delta": 1})
            out.append({"op": "fabhdr", "lv": lv, "box": bi, "what": "ncomp", "delta": -1})
            for d in range(nd):
                for what in ("lo", "hi"):
                    for delta in (1, -1):
                        out.append({"op": "idxline", "lv": lv, "box": bi, "what": what, "dim": d, "delta": delta})
            out.append({"op": "idxline_delete", "lv": lv, "box": bi})
            out.append({"op": "cellh_nonascii", "lv": lv, "box": bi, "line": "idx"})
            out.append({"op": "cellh_nonascii", "lv": lv, "box": bi, "line": "fod"})
            out.append({"op": "idxline_garble", "lv": lv, "box": bi})
            # an entry with the wrong number of groups whose low and high corners are intact
            out.append({"op": "idx_groups", "lv": lv, "box": bi, "how": "drop_type"})
            out.append({"op": "idx_groups", "lv": lv, "box": bi, "how": "stray_token"})
            out.append({"op": "fod_delete", "lv": lv, "box": bi})
            for how in ("garble", "nofile", "subdir", "otherfile", "beyond", "payload", "negative", "otherbox", "empty"):
                out.append({"op": "fod", "lv": lv, "box": bi, "how": how})
            out.append({"op": "box_delete_consistent", "lv": lv, "box": bi})
            if coords:
                for d in range(nd):
                    for side in (0, 1):
                        for cells in (1, -2, 0.5):
                            out.append({"op": "physbound", "lv": lv, "box": bi, "dim": d, "side": side, "cells": cells})
    return out


def _tail_marks(hline):
    """byte positions, inside a FAB header line, of the tokens that follow the data descriptor: `((lo) (hi) (type)) n`.
    An offset moved there leaves a line whose *last* tokens still describe the box."""
    k = hline.find(b")))")
    if k < 0:
        return []
    k += 3                                   # the '((' that opens the box
    marks = [k, k + 1, k + 2, k + 3]          # '((lo', '(lo', 'lo', second character of lo
    sp = hline.find(b" ", k)
    if sp > 0:
        marks += [sp - 1, sp, sp + 1]        # ')' closing lo, the blank, '(hi'
    return sorted({m for m in marks if 0 < m < len(hline) - 1})


def sites_c20(inf, levels=None):
    """byte-level edits validation may tolerate"""
    out = []
    for lv, L in enumerate(inf["levels"]):
        if levels is not None and lv not in levels:
            continue
        for b in L["boxes"]:
            bi = b["bi"]
            for k in [1, 3, 4, 17, 40, b["hlen"] - 1, b["hlen"], -1, -3] + list(b.get("tail", [])):
                out.append({"op": "offset_shift", "lv": lv, "box": bi, "k": int(k)})
            for how in ("lead0", "plus", "blanks", "tab", "trailblank"):
                out.append({"op": "fod_text", "lv": lv, "box": bi, "how": how})
            for how in ("prefix_char", "prefix_digits", "dblblank", "tabsep", "type_digits", "crlf", "lowercase"):
                out.append({"op": "fabhdr_text", "lv": lv, "box": bi, "how": how})
            for how in ("dblblank", "trailblank", "tab", "noparen", "type"):
                out.append({"op": "idx_text", "lv": lv, "box": bi, "how": how})
            out.append({"op": "bitflip", "lv": lv, "box": bi, "byte": 5})
            out.append({"op": "bitflip", "lv": lv, "box": bi, "byte": -1})
            out.append({"op": "swap_entries", "lv": lv, "box": bi})
        for how in ("crlf", "trailing_lines", "count_lead0", "count_blank", "ncomp_blank", "no_tables"):
            out.append({"op": "cellh_text", "lv": lv, "how": how})
    for how in ("crlf", "trailing_lines", "dblblank_bounds", "dx_extra_token", "dx_extra_token_finest", "geo_extra_token",
                "steps_extra_token", "time_blank"):
        out.append({"op": "header_text", "how": how})
    return out


# ------------------------------------------------------------------ application
def _cellh(path, inf, lv):
    return os.path.join(inf["levels"][lv]["dir"].replace(inf["root"], path), "Cell_H")


def _lines(p):
    with open(p, "rb") as f:
        return f.read().split(b"\n")


def _write_lines(p, lines):
    with open(p, "wb") as f:
        f.write(b"\n".join(lines))


def _idx_line_no(bi):
    return 5 + bi


def _fod_line_no(nb, bi):
    return 5 + nb + 2 + bi


def _edit_file(fp, pos, remove=0, insert=b""):
    with open(fp, "rb") as f:
        raw = f.read()
    with open(fp, "wb") as f:
        f.write(raw[:pos] + insert + raw[pos + remove:])


def _fmt_idx(lo, hi, nd):
    z = ",".join(["0"] * nd)
    return f"(({','.join(map(str, lo))}) ({','.join(map(str, hi))}) ({z}))".encode()


def apply(path, inf, mut):
    """apply one mutation descriptor to the copy at `path` (inf describes the original, whose
    root directory is inf['root'])"""
    op = mut["op"]
    if op == "header_text":
        hp = os.path.join(path, "Header")
        with open(hp, "rb") as f:
            raw = f.read()
        if mut["how"] == "crlf":
            raw = raw.replace(b"\n", b"\r\n")
        elif mut["how"] == "trailing_lines":
            raw += b"\n\n"
        elif mut["how"] == "dblblank_bounds":
            L = raw.split(b"\n")
            nv = int(L[1])
            i = 2 + nv + 3
            L[i] = L[i].replace(b" ", b"  ")
            raw = b"\n".join(L)
        elif mut["how"] in ("dx_extra_token", "dx_extra_token_finest", "geo_extra_token", "steps_extra_token", "time_blank"):
            L = raw.split(b"\n")
            nv = int(L[1])
            finest = int(L[2 + nv + 2])
            i = {"dx_extra_token": 2 + nv + 8, "dx_extra_token_finest": 2 + nv + 8 + finest, "geo_extra_token": 2 + nv + 4,
                 "steps_extra_token": 2 + nv + 7, "time_blank": 2 + nv + 1}[mut["how"]]
            L[i] = (L[i].rstrip() + b" 0.5") if mut["how"] != "time_blank" else (b" " + L[i] + b" ")
            if mut["how"] == "steps_extra_token":
                L[i] = L[i][:-4] + b" 7"
            raw = b"\n".join(L)
        with open(hp, "wb") as f:
            f.write(raw)
        return
    lv = mut["lv"]
    L = inf["levels"][lv]
    ldir = L["dir"].replace(inf["root"], path)
    nb = len(L["boxes"])
    nd = inf["ndims"]
    cp = os.path.join(ldir, "Cell_H")
    if op == "delete_file":
        os.remove(os.path.join(ldir, mut["file"])); return
    if op == "file_to_dir":
        fp = os.path.join(ldir, mut["file"])
        os.rename(fp, fp + ".moved")
        os.mkdir(fp)
        if mut["how"] == "holding_the_file":
            os.rename(fp + ".moved", os.path.join(fp, mut["file"]))
        else:
            os.remove(fp + ".moved")
        return
    if op in ("truncate", "extend"):
        fp = os.path.join(ldir, mut["file"])
        size = os.path.getsize(fp)
        last = L["boxes"][L["files"][mut["file"]][-1]]
        how = mut["how"]
        if op == "truncate":
            new = {"1": size - 1, "8": size - 8, "half": size // 2, "allbut1": 1, "all": 0,
                   "lastfab": last["off"], "intolasthdr": last["off"] + last["hlen"] // 2}[how]
            with open(fp, "r+b") as f:
                f.truncate(max(new, 0))
        else:
            if how == "fab":
                with open(fp, "rb") as f:
                    f.seek(last["off"]); extra = f.read(last["hlen"] + last["plen"])
            else:
                extra = b"\0" * int(how)
            with open(fp, "ab") as f:
                f.write(extra)
        return
    if op == "cellh_text":
        C = _lines(cp)
        how = mut["how"]
        if how == "crlf":
            C = [c + b"\r" if i < len(C) - 1 else c for i, c in enumerate(C)]
        elif how == "trailing_lines":
            C += [b"", b"# trailing", b""]
        elif how == "count_lead0":
            C[5 + nb + 1] = b"0" + C[5 + nb + 1]
        elif how == "count_blank":
            C[5 + nb + 1] = b" " + C[5 + nb + 1] + b" "
        elif how == "ncomp_blank":
            C[2] = C[2] + b" "
        elif how == "no_tables":
            C = C[:5 + nb + 2 + nb] + [b""]
        _write_lines(cp, C); return
    b = L["boxes"][mut["box"]]
    bi = b["bi"]
    fp = os.path.join(ldir, b["file"])
    if op == "insert":
        _edit_file(fp, b["off"] + b["hlen"] + min(16, b["plen"] // 2), 0, b"\x11" * mut["n"]); return
    if op == "remove":
        _edit_file(fp, b["off"] + b["hlen"] + min(16, (b["plen"] - mut["n"]) // 2), mut["n"]); return
    if op == "bitflip":
        pos = b["off"] + b["hlen"] + (mut["byte"] % b["plen"])
        with open(fp, "r+b") as f:
            f.seek(pos); c = f.read(1); f.seek(pos); f.write(bytes([c[0] ^ 0x10]))
        return
    if op in ("fabhdr", "fabhdr_text"):
        with open(fp, "rb") as f:
            f.seek(b["off"]); hdr = f.read(b["hlen"])
        if op == "fabhdr":
            lo, hi, nc = list(b["lo"]), list(b["hi"]), L["ncomp"]
            if mut["what"] == "hi":
                hi[mut["dim"]] += mut["delta"]
            elif mut["what"] == "lo":
                lo[mut["dim"]] += mut["delta"]
            elif mut["what"] == "shift":
                lo[mut["dim"]] += mut["delta"]; hi[mut["dim"]] += mut["delta"]
            else:
                nc += mut["delta"]
            new = refparse.FABRE.pattern  # unused; build explicitly
            new = hdr[:hdr.index(b"))((") + 2] + _fmt_idx(lo, hi, nd) + b" %d\n" % nc
        else:
            how = mut["how"]
            k = hdr.index(b"))((") + 2
            pre, desc = hdr[:k], hdr[k:]
            if how == "prefix_char":
                new = b"FAB ((8, (64 11 52 0 1 12 0 1023)),(8, (8 7 6 5 4 3 2 0)))" + desc
            elif how == "prefix_digits":
                new = b"FAB ((4, (32 8 23 0 1 9 0 127)),(4, (4 3 2 1)))" + desc
            elif how == "dblblank":
                new = pre + desc.replace(b") (", b")  (", 1)
            elif how == "tabsep":
                new = pre + desc.replace(b") (", b")\t(", 1)
            elif how == "type_digits":
                new = pre + re.sub(rb"\(0(,0)*\)\)", lambda m_: m_.group(0).replace(b"0", b"1"), desc)
            elif how == "crlf":
                new = hdr[:-1] + b"\r\n"
            elif how == "lowercase":
                new = b"fab" + hdr[3:]
        _edit_file(fp, b["off"], b["hlen"], new); return
    C = _lines(cp)
    il, fl = _idx_line_no(bi), _fod_line_no(nb, bi)
    if op == "idxline":
        lo, hi = list(b["lo"]), list(b["hi"])
        (lo if mut["what"] == "lo" else hi)[mut["dim"]] += mut["delta"]
        C[il] = _fmt_idx(lo, hi, nd)
    elif op == "idxline_delete":
        del C[il]
    elif op == "cellh_nonascii":
        # a stray non-text byte inside the entry: dropping it would leave a valid entry
        ln = il if mut["line"] == "idx" else fl
        k = len(C[ln]) // 2
        C[ln] = C[ln][:k] + b"\xff" + C[ln][k:]
    elif op == "idxline_garble":
        C[il] = re.sub(rb"\d", b"x", C[il], count=1)
    elif op == "idx_groups":
        if mut["how"] == "drop_type":
            C[il] = re.sub(rb"\s*\([\d,]+\)\)\s*$", b"", C[il])          # ((lo) (hi) (type)) -> ((lo) (hi)
        else:
            C[il] = C[il].rstrip() + b" " + b",".join(str(v).encode() for v in b["hi"]) + b")"
    elif op == "idx_text":
        how = mut["how"]
        if how == "dblblank":
            C[il] = C[il].replace(b") (", b")  (", 1)
        elif how == "trailblank":
            C[il] += b"  "
        elif how == "tab":
            C[il] = C[il].replace(b") (", b")\t(", 1)
        elif how == "noparen":
            C[il] = C[il][1:]
        elif how == "type":
            C[il] = re.sub(rb"\(0(,0)*\)\)$", lambda m_: m_.group(0).replace(b"0", b"1"), C[il])
    elif op == "fod_delete":
        del C[fl]
    elif op == "fod":
        how = mut["how"]
        others = [o for o in L["boxes"] if o["bi"] != bi]
        otherfiles = [f for f in L["files"] if f != b["file"]]
        size = os.path.getsize(fp)
        if how == "garble":
            C[fl] = b"FabOnDisk: %s 12x4" % b["file"].encode()
        elif how == "empty":
            C[fl] = b"FabOnDisk: %s" % b["file"].encode()
        elif how == "nofile":
            C[fl] = b"FabOnDisk: Cell_D_99999 %d" % b["off"]
        elif how == "subdir":       # names an existing subdirectory of the level directory
            os.makedirs(os.path.join(ldir, "backup"), exist_ok=True)
            C[fl] = b"FabOnDisk: backup %d" % b["off"]
        elif how == "otherfile":
            if not otherfiles:
                return "n/a"
            C[fl] = b"FabOnDisk: %s %d" % (otherfiles[0].encode(), b["off"])
        elif how == "beyond":
            C[fl] = b"FabOnDisk: %s %d" % (b["file"].encode(), size + 64)
        elif how == "payload":
            C[fl] = b"FabOnDisk: %s %d" % (b["file"].encode(), b["off"] + b["hlen"] + min(24, b["plen"] // 2))
        elif how == "negative":
            C[fl] = b"FabOnDisk: %s %d" % (b["file"].encode(), -max(b["off"], 7))
        elif how == "otherbox":
            if not others:
                return "n/a"
            o = others[(bi * 7) % len(others)]
            C[fl] = b"FabOnDisk: %s %d" % (o["file"].encode(), o["off"])
    elif op == "fod_text":
        how = mut["how"]
        fn, off = b["file"].encode(), b["off"]
        C[fl] = {"lead0": b"FabOnDisk: %s 000%d" % (fn, off), "plus": b"FabOnDisk: %s +%d" % (fn, off),
                 "blanks": b"FabOnDisk:   %s    %d" % (fn, off), "tab": b"FabOnDisk:\t%s\t%d" % (fn, off),
                 "trailblank": b"FabOnDisk: %s %d  " % (fn, off)}[how]
    elif op == "offset_shift":
        C[fl] = b"FabOnDisk: %s %d" % (b["file"].encode(), b["off"] + mut["k"])
    elif op == "swap_entries":
        if nb < 2:
            return "n/a"
        o = L["boxes"][(bi + 1) % nb]
        C[il], C[_idx_line_no(o["bi"])] = C[_idx_line_no(o["bi"])], C[il]
        C[fl], C[_fod_line_no(nb, o["bi"])] = C[_fod_line_no(nb, o["bi"])], C[fl]
    elif op == "box_delete_consistent":
        if nb < 2:
            return "n/a"
        # remove the box from both lists, both counts and both min/max tables
        t0 = 5 + nb + 2 + nb + 1          # "nb,ncomp" line of the min table
        rows = [il, fl, t0 + 1 + bi, t0 + 1 + nb + 2 + bi]
        C[4] = b"(%d 0" % (nb - 1)
        C[5 + nb + 1] = b"%d" % (nb - 1)
        for hdr_line in (t0, t0 + 1 + nb + 1):
            if hdr_line < len(C) and b"," in C[hdr_line]:
                C[hdr_line] = b"%d,%s" % (nb - 1, C[hdr_line].split(b",")[1])
        for rline in sorted(rows, reverse=True):
            if rline < len(C):
                del C[rline]
    elif op == "physbound":
        hp = os.path.join(path, "Header")
        H = _lines(hp)
        hdr = inf["header"]
        nv = len(hdr["names"])
        i = 2 + nv + 8 + (hdr["finest"] + 1) + 2
        for l2 in range(lv):
            i += 2 + nd * hdr["levels"][l2]["nboxes"] + 1
        i += 2 + nd * bi + mut["dim"]
        lo, hi = [float(x) for x in H[i].split()]
        dx = hdr["dx"][lv][mut["dim"]]
        if mut["side"] == 0:
            lo += mut["cells"] * dx
        else:
            hi += mut["cells"] * dx
        H[i] = b"%s %s" % (repr(lo).encode(), repr(hi).encode())
        _write_lines(hp, H)
        return
    else:
        raise ValueError(op)
    _write_lines(cp, C)


def mutant(src, dst, inf, muts):
    """copy src to dst and apply the mutations; returns False if one was not applicable"""
    if os.path.exists(dst):
        shutil.rmtree(dst)
    shutil.copytree(src, dst)
    inf["root"] = src
    # byte edits of one binary file are applied from the end of the file backwards, so that the
    # positions computed from the original layout stay valid for the remaining edits
    BYTE_OPS = ("insert", "remove", "fabhdr", "fabhdr_text", "bitflip")

    def pos(mu):
        if mu["op"] in BYTE_OPS:
            return -inf["levels"][mu["lv"]]["boxes"][mu["box"]]["off"]
        return 1
    muts = sorted(muts, key=pos)
    for mu in muts:
        try:
            if apply(dst, inf, mu) == "n/a":
                return False
        except (FileNotFoundError, IndexError, ValueError):
            return False      # the second edit of a pair no longer has its site (file deleted, line gone)
    return True
