"""M4 — write-fault injector. builtins.open / io.open are replaced by a wrapper that numbers every
open-for-write and returns a thin proxy numbering every write(); os.mkdir / os.makedirs are
numbered too. A counting run learns the N fault points of an invocation; then one run per point
raises OSError(EACCES) at that open/mkdir or OSError(ENOSPC) at that write - one-shot and sticky
(every later write to the same path fails too). Reads go to the real file object."""
import builtins, io, os, errno

REAL_OPEN = builtins.open
REAL_MKDIR = os.mkdir
REAL_MAKEDIRS = os.makedirs


class State:
    def __init__(self):
        self.reset()

    def reset(self, fail_at=None):
        self.n = 0                 # fault points met so far
        self.fail_at = fail_at     # index of the point to fail (1-based) or None
        self.kinds = []            # kind of each point met
        self.bad_paths = set()
        self.injected = None
        # path-based fault (deterministic under real pools, where every worker counts on its own):
        # fail the `path_nth`-th point of kind `path_kind` on a path containing `path_substr`
        self.path_substr = None
        self.path_kind = None
        self.path_nth = 1
        self.path_seen = 0
        self.deferred_pending = 0  # deferred errors planted / raised at flush, close or the end of a with block
        self.deferred_raised = 0
        self.log = []              # (kind, path) of every point met
        # flavour of the injected error: with an errno (what the OS reports), or "plain": an OSError built
        # from a message only (what numpy's tofile raises on a short write: "N requested and M written")
        self.plain = False
        # "deferred": the failing write() is accepted (as buffered I/O accepts it) and nothing of it reaches the file;
        # the error is raised when the buffer would be flushed - by flush(), by close(), or on leaving the with
        # block. A file object that is merely dropped loses the error (CPython ignores what a finalizer raises).
        self.deferred = False


S = State()


def _fail(kind, path, note="injected"):
    if S.plain:
        raise OSError(f"4096 requested and 0 written ({note}, no errno): {path}")
    if kind == "write":
        raise OSError(errno.ENOSPC, f"No space left on device ({note})", str(path))
    raise OSError(errno.EACCES, f"Permission denied ({note})", str(path))


def _point(kind, path):
    S.n += 1
    S.kinds.append(kind)
    if len(S.log) < 20000:
        S.log.append((kind, str(path)))
    if S.path_substr is not None and kind == S.path_kind and S.path_substr in str(path):
        S.path_seen += 1
        if S.path_seen == S.path_nth:
            S.injected = (kind, str(path))
            S.bad_paths.add(str(path))
            _fail(kind, path)
    if str(path) in S.bad_paths:
        _fail("write", path, "injected, sticky")
    if S.fail_at == S.n:
        S.injected = (kind, str(path))
        S.bad_paths.add(str(path))
        _fail(kind, path)


class WProxy:
    def __init__(self, f, path):
        self._f = f
        self._p = path

    def write(self, b):
        if S.deferred:
            if getattr(self, "_pending", None) is not None:
                return len(b)
            try:
                _point("write", self._p)
            except OSError as e:
                self._pending = e
                S.deferred_pending += 1
                return len(b)
            return self._f.write(b)
        _point("write", self._p)
        return self._f.write(b)

    def _surface(self):
        e = getattr(self, "_pending", None)
        if e is not None:
            self._pending = None
            S.deferred_raised += 1
            raise e

    def flush(self):
        self._surface()
        return self._f.flush()

    def close(self):
        try:
            self._surface()
        finally:
            self._f.close()

    def writelines(self, lines):
        for l in lines:
            self.write(l)

    def __enter__(self):
        self._f.__enter__()
        return self

    def __exit__(self, *a):
        r = self._f.__exit__(*a)
        if a[0] is None:
            self._surface()
        return r

    def __getattr__(self, n):
        return getattr(self._f, n)

    def __iter__(self):
        return iter(self._f)


def fopen(file, mode="r", *a, **k):
    if isinstance(file, (str, bytes, os.PathLike)) and isinstance(mode, str) and any(c in mode for c in "wax+"):
        _point("open", os.fspath(file))
        return WProxy(REAL_OPEN(file, mode, *a, **k), os.fsdecode(os.fspath(file)))
    return REAL_OPEN(file, mode, *a, **k)


def fmkdir(path, *a, **k):
    _point("mkdir", os.fspath(path))
    return REAL_MKDIR(path, *a, **k)


def fmakedirs(name, *a, **k):
    _point("mkdir", os.fspath(name))
    return REAL_MAKEDIRS(name, *a, **k)


def install():
    builtins.open = fopen
    io.open = fopen
    os.mkdir = fmkdir
    os.makedirs = fmakedirs


def uninstall():
    builtins.open = REAL_OPEN
    io.open = REAL_OPEN
    os.mkdir = REAL_MKDIR
    os.makedirs = REAL_MAKEDIRS
