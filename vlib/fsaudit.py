"""M3 — file-system audit. (a) snapshot: sha256 + lstat of every entry of the input trees and a
listing of the whole sandbox before/after; (b) audit hook: sys.addaudithook records every
write-class event (open for writing, mkdir, rename, remove, rmdir, truncate, chmod, utime, link,
symlink, shutil.*) with its resolved path through a pre-opened O_APPEND fd, so forked workers
log too and *transient* writes inside an input are seen; (c) strace cross-check (thorough)."""
import os, sys, hashlib, json, re, subprocess

_fd = [None]
_installed = [False]
WRITE_EVENTS = {"os.mkdir", "os.rename", "os.remove", "os.rmdir", "os.truncate", "os.chmod", "os.utime",
                "os.link", "os.symlink", "shutil.rmtree", "shutil.copyfile", "shutil.copymode",
                "shutil.copystat", "shutil.copytree", "shutil.move", "shutil.make_archive", "os.chown",
                "os.mkfifo", "os.mknod"}


def _hook(event, args):
    fd = _fd[0]
    if fd is None:
        return
    try:
        if event == "open":
            path, mode, flags = args[0], args[1], args[2]
            wr = (isinstance(mode, str) and any(c in mode for c in "wax+")) or \
                 (isinstance(flags, int) and flags & (os.O_WRONLY | os.O_RDWR | os.O_CREAT | os.O_TRUNC | os.O_APPEND))
            if not wr or not isinstance(path, (str, bytes)):
                return
            # opening an existing file read-write ('r+') changes nothing by itself: logged as a weaker
            # event, judged only together with the content/stat snapshot
            destructive = (isinstance(mode, str) and any(c in mode for c in "wax")) or \
                (isinstance(flags, int) and flags & (os.O_WRONLY | os.O_CREAT | os.O_TRUNC | os.O_APPEND))
            if not destructive:
                event = "open-readwrite"
            paths = [path]
        elif event in WRITE_EVENTS:
            paths = [a for a in args[:2] if isinstance(a, (str, bytes)) or hasattr(a, "__fspath__")]
        else:
            return
        for p in paths:
            p = os.fsdecode(os.fspath(p))
            ap = os.path.normpath(os.path.join(os.getcwd(), p))
            os.write(fd, (json.dumps([event, ap, p]) + "\n").encode())
    except Exception:
        pass


def install():
    if not _installed[0]:
        sys.addaudithook(_hook)
        _installed[0] = True


def start(logpath):
    install()
    _fd[0] = os.open(logpath, os.O_WRONLY | os.O_CREAT | os.O_APPEND, 0o644)


def stop():
    if _fd[0] is not None:
        os.close(_fd[0])
        _fd[0] = None


def events(logpath):
    out = []
    if os.path.exists(logpath):
        with open(logpath) as f:
            for line in f:
                try:
                    out.append(json.loads(line))
                except Exception:
                    pass
    return out


def snapshot(root):
    """{relative path: (kind, size, mode, mtime_ns, inode, sha, nlink)} for every entry under root"""
    snap = {}
    for dirpath, dirs, files in os.walk(root):
        dirs.sort()
        for name in [""] + sorted(files):
            p = os.path.join(dirpath, name) if name else dirpath
            st = os.lstat(p)
            rel = os.path.relpath(p, root)
            if name:
                with open(p, "rb") as f:
                    sha = hashlib.sha256(f.read()).hexdigest()[:16]
                # the hard-link count is part of the state: a file of the input linked into an output can be
                # rewritten through the output later on
                snap[rel] = ("f", st.st_size, st.st_mode, st.st_mtime_ns, st.st_ino, sha, st.st_nlink)
            else:
                snap[rel] = ("d", 0, st.st_mode, st.st_mtime_ns, st.st_ino, "", 0)
    return snap


def listing(root):
    out = {}
    for dirpath, dirs, files in os.walk(root):
        for name in files:
            p = os.path.join(dirpath, name)
            st = os.lstat(p)
            out[p] = (st.st_size, st.st_mtime_ns, st.st_ino)
        for name in dirs:
            out[os.path.join(dirpath, name)] = ("d",)
    return out


def diff_snap(a, b):
    probs = []
    for k in sorted(set(a) | set(b)):
        if k not in b:
            probs.append(f"removed: {k}")
        elif k not in a:
            probs.append(f"created: {k}")
        elif a[k] != b[k]:
            what = ("content" if a[k][5] != b[k][5] or a[k][1] != b[k][1] else
                    "hard-link count (now reachable through another path)" if a[k][6] != b[k][6] else
                    "metadata (mode/mtime/inode)")
            probs.append(f"changed {what}: {k}")
    return probs


def under(path, root):
    """path lies at or below root - as spelled, or once symbolic links are resolved (a write through a link
    to an input is a write into the input)"""
    path = os.path.normpath(path); root = os.path.normpath(root)
    if path == root or path.startswith(root + os.sep):
        return True
    rp, rr = os.path.realpath(path), os.path.realpath(root)
    return rp == rr or rp.startswith(rr + os.sep)


STRACE_RE = re.compile(r'^\d+\s+(\w+)\((.*)\)\s+=\s+(-?\d+)')


def strace_run(cmd, cwd, logpath, timeout=300, env=None):
    p = subprocess.run(["strace", "-f", "-qq", "-e", "trace=%file", "-o", logpath] + cmd, cwd=cwd,
                       capture_output=True, text=True, timeout=timeout, env=env)
    return p


def strace_writes(logpath, cwd):
    """write-class syscalls that succeeded: list of (syscall, absolute path)"""
    out = []
    cwds = {}
    with open(logpath, errors="replace") as f:
        for line in f:
            m = STRACE_RE.match(line)
            if not m:
                continue
            name, args, ret = m.group(1), m.group(2), int(m.group(3))
            if ret < 0:
                continue
            paths = re.findall(r'"((?:[^"\\]|\\.)*)"', args)
            if not paths:
                continue
            wr = False
            if name in ("open", "openat", "creat"):
                wr = bool(re.search(r"O_WRONLY|O_RDWR|O_CREAT|O_TRUNC|O_APPEND", args)) or name == "creat"
                paths = paths[:1]
            elif name in ("mkdir", "mkdirat", "unlink", "unlinkat", "rmdir", "rename", "renameat", "renameat2",
                          "truncate", "chmod", "fchmodat", "link", "linkat", "symlink", "symlinkat", "utimensat",
                          "chown", "fchownat", "mknod", "mknodat"):
                wr = True
            if wr:
                for p in paths:
                    out.append((name, os.path.normpath(os.path.join(cwd, p))))
    return out
