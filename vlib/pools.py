"""M1 — schedule controller: a drop-in for multiprocessing.Pool and pathos ProcessingPool that
runs the tasks of every pool call itself, in an execution order chosen by the harness, and
logs each call. Ordered APIs return results in submission order whatever the execution order;
imap_unordered delivers in completion (= chosen) order; a task exception is re-raised at the
position the real API would raise it."""
import os, sys, random, itertools
import dill


class Controller:
    def __init__(self):
        self.reset()

    def reset(self, mode="inproc", seed=0, plan=None, default="shuffle"):
        self.mode = mode            # inproc | fork
        self.rng = random.Random(seed)
        self.plan = dict(plan or {})  # call index -> permutation
        self.default = default      # shuffle | identity | reverse
        self.calls = []             # (fn name, ntasks, perm, ordered)
        self.executed = []          # per call: list of task indices executed
        self.delivered = []         # per call: list of task indices whose result was consumed

    def order(self, cid, n):
        if cid in self.plan and len(self.plan[cid]) == n:
            return list(self.plan[cid])
        if str(cid) in self.plan and len(self.plan[str(cid)]) == n:
            return list(self.plan[str(cid)])
        p = list(range(n))
        if self.default == "shuffle":
            self.rng.shuffle(p)
        elif self.default == "reverse":
            p.reverse()
        return p

    def run_task(self, fn, arg):
        if self.mode == "inproc":
            try:
                return (True, fn(arg))
            except BaseException as e:
                return (False, e)
        r, w = os.pipe()
        for stream in (sys.stdout, sys.stderr):      # as multiprocessing.util._flush_std_streams does
            try:
                stream.flush()
            except (AttributeError, ValueError):
                pass
        pid = os.fork()
        if pid == 0:
            os.close(r)
            try:
                try:
                    out = (True, fn(dill.loads(dill.dumps(arg))))
                except BaseException as e:
                    out = (False, e)
                try:
                    payload = dill.dumps(out)
                except BaseException as e:
                    payload = dill.dumps((False, RuntimeError(f"unpicklable result: {e!r}")))
                with os.fdopen(w, "wb") as f:
                    f.write(payload)
            finally:
                os._exit(0)
        os.close(w)
        with os.fdopen(r, "rb") as f:
            data = f.read()
        os.waitpid(pid, 0)
        if not data:
            return (False, RuntimeError("worker died"))
        return dill.loads(data)

    def run(self, fn, tasks, ordered):
        cid = len(self.calls)
        n = len(tasks)
        perm = self.order(cid, n)
        self.calls.append((getattr(fn, "__name__", str(fn)), n, tuple(perm), ordered))
        ex, dl = [], []
        self.executed.append(ex); self.delivered.append(dl)
        res = {}
        for i in perm:
            res[i] = self.run_task(fn, tasks[i])
            ex.append(i)
        out = []
        seq = range(n) if ordered else perm
        for i in seq:
            out.append((i, res[i]))
        return out, dl


CTL = Controller()


def _deliver(pairs, dl):
    for i, (ok, v) in pairs:
        dl.append(i)
        if not ok:
            raise v
        yield v


class _Async:
    """look-alike of multiprocessing.pool.AsyncResult for a task that has already run"""

    def __init__(self, res, callback=None, error_callback=None, single=True):
        self._ok, self._value = res
        if self._ok and callback:
            callback(self._value)
        if not self._ok and error_callback:
            error_callback(self._value)

    def ready(self):
        return True

    def successful(self):
        return self._ok

    def wait(self, timeout=None):
        return None

    def get(self, timeout=None):
        if not self._ok:
            raise self._value
        return self._value


class SchedPool:
    """multiprocessing.Pool look-alike"""

    def __init__(self, processes=None, *a, **k):
        # look like a real pool to code that asks for its size - and refuse the sizes a real pool refuses
        if processes is None:
            processes = k.get("nodes", k.get("ncpus"))      # pathos spelling
        if processes is not None and processes < 1:
            raise ValueError("Number of processes must be at least 1")
        self._processes = processes or (os.cpu_count() or 1)

    def __enter__(self):
        return self

    def __exit__(self, *a):
        return False

    def map(self, fn, it, chunksize=None):
        pairs, dl = CTL.run(fn, list(it), True)
        # the real map() keeps the exception of the task that failed *first in time* (completion order),
        # not of the first failing task in submission order - that is imap()'s behaviour
        byidx = dict(pairs)
        for i in CTL.executed[-1]:
            if not byidx[i][0]:
                dl.append(i)
                raise byidx[i][1]
        return list(_deliver(pairs, dl))

    def starmap(self, fn, it, chunksize=None):
        return self.map(lambda a: fn(*a), it)

    def imap(self, fn, it, chunksize=1):
        pairs, dl = CTL.run(fn, list(it), True)
        return _deliver(pairs, dl)

    def imap_unordered(self, fn, it, chunksize=1):
        pairs, dl = CTL.run(fn, list(it), False)
        return _deliver(pairs, dl)

    def apply(self, fn, args=(), kwds={}):
        return fn(*args, **kwds)

    # asynchronous forms: the task runs at submission (one more point of the schedule space: a real pool may run
    # it at any time before get / wait); the result object behaves like multiprocessing's - get() re-raises the
    # task's exception, wait() does not, successful() tells
    def apply_async(self, fn, args=(), kwds={}, callback=None, error_callback=None):
        pairs, dl = CTL.run(lambda a: fn(*a[0], **a[1]), [(tuple(args), dict(kwds))], True)
        return _Async(pairs[0][1], callback, error_callback, single=True)

    def map_async(self, fn, it, chunksize=None, callback=None, error_callback=None):
        pairs, dl = CTL.run(fn, list(it), True)
        byidx = dict(pairs)
        first_bad = next((byidx[i] for i in CTL.executed[-1] if not byidx[i][0]), None)
        res = first_bad if first_bad is not None else (True, [byidx[i][1] for i in range(len(pairs))])
        return _Async(res, callback, error_callback, single=False)

    def starmap_async(self, fn, it, chunksize=None, callback=None, error_callback=None):
        return self.map_async(lambda a: fn(*a), it, chunksize, callback, error_callback)

    def close(self):
        pass

    def join(self):
        pass

    def terminate(self):
        pass

    def clear(self):
        pass

    def restart(self):
        pass


class SchedPathos(SchedPool):
    """pathos ProcessingPool look-alike (map/imap take several iterables)"""

    def map(self, fn, *its, **k):
        if len(its) == 1:
            return SchedPool.map(self, fn, its[0])
        return SchedPool.map(self, lambda a: fn(*a), zip(*its))

    def imap(self, fn, *its, **k):
        if len(its) == 1:
            return SchedPool.imap(self, fn, its[0])
        return SchedPool.imap(self, lambda a: fn(*a), zip(*its))

    def uimap(self, fn, *its, **k):
        if len(its) == 1:
            return SchedPool.imap_unordered(self, fn, its[0])
        return SchedPool.imap_unordered(self, lambda a: fn(*a), zip(*its))


_installed = {}


def install():
    """Replace the names the repository modules resolve at call time."""
    import multiprocessing
    from . import common
    ch = common.repo_module("amr_kitchen.chef.chef")
    ck = common.repo_module("amr_kitchen.chk2plt.chk2plt")
    if not _installed:
        _installed["mp"] = multiprocessing.Pool
        _installed["ch"] = ch.Pool
        _installed["ck"] = ck.Pool
    multiprocessing.Pool = SchedPool
    ch.Pool = SchedPathos
    ck.Pool = SchedPool


def uninstall():
    import multiprocessing
    from . import common
    if _installed:
        multiprocessing.Pool = _installed["mp"]
        common.repo_module("amr_kitchen.chef.chef").Pool = _installed["ch"]
        common.repo_module("amr_kitchen.chk2plt.chk2plt").Pool = _installed["ck"]


def check_log(rec=None):
    """offline check of the pool-call log: every submitted task executed exactly once;
    returns list of problems"""
    probs = []
    for (name, n, perm, ordered), ex in zip(CTL.calls, CTL.executed):
        if sorted(ex) != list(range(n)):
            probs.append(f"{name}: executed {ex} of {n}")
    return probs


def all_perms(n, cap=24):
    ps = list(itertools.permutations(range(n)))
    return ps if len(ps) <= cap else None
