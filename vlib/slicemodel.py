"""Reference 3D slice (C07 / C16): per level, per pixel, the stored samples that bracket the
plane along the normal, with a per-pixel *decidability* mask. Written from the statement."""
import numpy as np


class LevelVolumes:
    """dense per-level volumes of a model: coverage, box id and values (NaN where no box)"""

    def __init__(self, m, L):
        self.m = m
        self.L = L
        self.cov, self.val, self.bid = [], [], []
        for lv in range(L + 1):
            gs = m.grid_sizes[lv]
            cov = np.zeros(gs, dtype=bool)
            bid = -np.ones(gs, dtype=int)
            val = np.full(tuple(gs) + (m.nfields,), np.nan)
            for bi, b in enumerate(m.boxes[lv]):
                sl = tuple(slice(b.lo[d], b.hi[d] + 1) for d in range(3))
                cov[sl] = True
                bid[sl] = bi
                val[sl] = m.data[lv][bi]
            self.cov.append(cov); self.val.append(val); self.bid.append(bid)


def brackets(m, lv, n, pos):
    """required cell indices along normal n at level lv for a plane at pos, with their centres:
    list of (k, centre). One entry when pos is on a centre or beyond the outermost centres."""
    dx = m.dx[lv][n]
    lo = m.geo_low[n]
    N = m.grid_sizes[lv][n]
    t = (pos - lo) / dx - 0.5
    k0 = int(np.floor(t + 1e-9))
    if abs(t - round(t)) < 1e-7:
        k = int(round(t))
        k = min(max(k, 0), N - 1)
        return [(k, lo + (k + 0.5) * dx)]
    out = []
    for k in (k0, k0 + 1):
        if 0 <= k < N:
            out.append((k, lo + (k + 0.5) * dx))
    return out


def nonfinite_fields(vol):
    """boolean per field: some stored value of some level is not finite"""
    nf = getattr(vol, "_nonfinite", None)
    if nf is None:
        m = vol.m
        nf = np.zeros(m.nfields, dtype=bool)
        for lv in range(m.nlevels):
            for a in m.data[lv]:
                nf |= ~np.isfinite(a).reshape(-1, m.nfields).all(axis=0)
        vol._nonfinite = nf
    return nf


def single_sample(vol, lv, n, pos, k, factor):
    """value for a one-entry bracket (k). Beyond the outermost centres the single sample is the
    value. On a cell centre inside the domain an implementation may still combine the sample with
    a neighbour along the normal - of this level or of a coarser one - at weight 0 (0 x inf = NaN,
    or inf when the weight rounds to 1e-17): fields that hold non-finite values anywhere are not
    determined on such planes."""
    m = vol.m
    dx = m.dx[lv][n]
    first = m.geo_low[n] + 0.5 * dx
    last = m.geo_low[n] + (m.grid_sizes[lv][n] - 0.5) * dx
    val = plane(vol, lv, n, k, factor)[1]
    if first + 1e-7 * dx < pos < last - 1e-7 * dx:
        nf = nonfinite_fields(vol)
        if nf.any():
            val = np.array(val, dtype=np.float64, copy=True)
            val[..., nf] = np.nan
    return val


def plane(vol, lv, n, k, factor):
    """(coverage, values[..., nf], box ids) of level lv at normal index k, in-plane (cx, cy)
    order, expanded to the output resolution"""
    idx = [slice(None)] * 3
    idx[n] = k
    c = vol.cov[lv][tuple(idx)]
    v = vol.val[lv][tuple(idx)]
    b = vol.bid[lv][tuple(idx)]
    for ax in (0, 1):
        c = np.repeat(c, factor, axis=ax)
        v = np.repeat(v, factor, axis=ax)
        b = np.repeat(b, factor, axis=ax)
    return c, v, b


def interp(p0, p1, w1):
    """the defining formula evaluated in IEEE arithmetic: where it has an indeterminate form
    (0 x inf at a weight of exactly 0, inf - inf) the result is NaN = not determined. A plane within
    rounding of a cell centre has a weight that is 0 in one evaluation order and 1e-17 in another,
    so there every pixel with a non-finite sample is not determined either."""
    with np.errstate(invalid="ignore"):
        val = p0 * (1.0 - w1) + p1 * w1
    if min(abs(w1), abs(1.0 - w1)) < 1e-6:
        val = np.where(np.isfinite(p0) & np.isfinite(p1), val, np.nan)
    return val


def differs(a, e, tol):
    """|a - e| > tol; equal infinities are equal; pixels whose expected value is NaN (stored NaN,
    or an indeterminate form of the defining formula) are not judged"""
    with np.errstate(invalid="ignore"):
        return ~((a == e) | (np.abs(a - e) <= tol) | np.isnan(e))


def value_tol(m, L, n):
    """relative tolerance for interpolated values: 1e-9, plus the conditioning of the weights - a
    coordinate x is known to ulp(x), a weight is a coordinate difference divided by a cell size, so
    far from the origin (|x| / dx of 1e5 .. 1e8) the weights of two correct evaluations differ by
    about eps * |x| / dx"""
    far = max(abs(m.geo_low[n]), abs(m.geo_high[n]))
    return 1e-9 + 64 * 2.220446049250313e-16 * far / m.dx[L][n]


def scale_of(e):
    f = np.abs(e[np.isfinite(e)])
    return max(1.0, float(f.max())) if f.size else 1.0


def field_scale(m, fi):
    """magnitude of a field: the largest finite stored sample over all levels (1.0 when there is none). Tolerances
    on interpolated values are relative to it - not to 1.0, which would wave through anything a trace quantity
    (mass fractions of 1e-10) could get wrong, and not to the expected values of one box or plane alone, which can
    cancel to nothing between samples of ordinary size."""
    cache = m.__dict__.setdefault("_field_scale", {})
    if fi not in cache:
        best = 0.0
        for lv in range(m.nlevels):
            for a in m.data[lv]:
                v = np.abs(a[..., fi])
                v = v[np.isfinite(v)]
                if v.size:
                    best = max(best, float(v.max()))
        cache[fi] = best if best > 0.0 else 1.0
    return cache[fi]


def reference(vol, n, pos):
    """-> dict(value[nx,ny,nf], decided[nx,ny], T[nx,ny], S[nx,ny], levels_ok[L+1][nx,ny])
    in-plane axes (cx, cy) = the two non-normal axes in increasing order (not transposed)"""
    m, L = vol.m, vol.L
    cx, cy = [d for d in range(3) if d != n]
    shape = (m.grid_sizes[L][cx], m.grid_sizes[L][cy])
    S = -np.ones(shape, dtype=int)
    T = -np.ones(shape, dtype=int)
    value = np.full(shape + (m.nfields,), np.nan)
    near = []     # per level: pixel has a box whose normal extent +- half a cell contains pos
    contains = []  # per level: pixel has a box whose closed normal extent contains pos
    amb = np.zeros(shape, dtype=bool)
    for lv in range(L + 1):
        f = 2 ** (L - lv)
        br = brackets(m, lv, n, pos)
        planes = [plane(vol, lv, n, k, f) for k, c in br]
        allc = np.ones(shape, dtype=bool)
        anyc = np.zeros(shape, dtype=bool)
        for c, v, b in planes:
            allc &= c
            anyc |= c
        if len(br) == 1:
            # plane exactly on a cell centre of this level that no box of the level holds, but
            # whose neighbour along the normal is held: the plane is exactly half a cell outside
            # a box face - whether that box's first sample "brackets" it is a closed/open
            # interval convention the statement does not fix => undecided
            k = br[0][0]
            N = m.grid_sizes[lv][n]
            nb = np.zeros(shape, dtype=bool)
            for kk in (k - 1, k + 1):
                if 0 <= kk < N:
                    nb |= plane(vol, lv, n, kk, f)[0]
            amb |= nb & ~planes[0][0]
            anyc_near = anyc | nb
        else:
            anyc_near = anyc
        S[allc] = lv
        T[anyc] = lv
        if len(br) == 1:
            val = single_sample(vol, lv, n, pos, br[0][0], f)
        else:
            (k0, c0), (k1, c1) = br
            w1 = (pos - c0) / (c1 - c0)
            val = interp(planes[0][1], planes[1][1], w1)
        value[allc] = val[allc]
        # levels that have a box AT the pixel: a box whose closed normal extent contains pos
        dx = m.dx[lv][n]
        N = m.grid_sizes[lv][n]
        t = (pos - m.geo_low[n]) / dx
        cells = {min(max(int(np.floor(t)), 0), N - 1)}
        if abs(t - round(t)) < 1e-9:          # on a cell face: the cells on both sides
            cells = {min(max(int(round(t)) - 1, 0), N - 1), min(max(int(round(t)), 0), N - 1)}
        cont = np.zeros(shape, dtype=bool)
        for kk in cells:
            cont |= plane(vol, lv, n, kk, f)[0]
        contains.append(cont)
        near.append(anyc_near)
    return {"value": value, "decided": (S == T) & (S >= 0) & ~amb, "S": S, "T": T, "near": near, "contains": contains,
            "cx": cx, "cy": cy}


def positions(m, L, n, rng, per_class=3):
    """positions along normal n enumerated by class from the geometry of every level"""
    lo, hi = m.geo_low[n], m.geo_high[n]
    out = []

    def add(cls, p):
        if lo <= p <= hi:
            out.append((cls, float(p)))
    for lv in range(L + 1):
        dx = m.dx[lv][n]
        N = m.grid_sizes[lv][n]
        ks = rng.sample(range(N), min(N, per_class))
        for k in ks:
            add(f"centre:lv{lv}", lo + (k + 0.5) * dx)
            add(f"cellface:lv{lv}", lo + k * dx)
            add(f"incell:lv{lv}", lo + (k + rng.choice([0.13, 0.27, 0.61, 0.88])) * dx)
        faces = sorted({b.lo[n] for b in m.boxes[lv]} | {b.hi[n] + 1 for b in m.boxes[lv]})
        for fk in (faces if len(faces) <= per_class + 1 else rng.sample(faces, per_class + 1)):
            p = lo + fk * dx
            add(f"boxface:lv{lv}", p)
            for g in (0.2, 0.3, 0.49):
                add(f"gap-:lv{lv}", p - g * dx)
                add(f"gap+:lv{lv}", p + g * dx)
    add("domainface:lo", lo)
    add("domainface:hi", hi)
    dxf = m.dx[L][n]
    for g in (0.2, 0.45):
        add("domaingap:lo", lo + g * dxf)
        add("domaingap:hi", hi - g * dxf)
    for _ in range(per_class):
        add("random", lo + (hi - lo) * rng.random())
    return out


def too_close_to_centre(m, L, n, pos):
    """True when pos is within the tool's snapping tolerance (1e-6 cell since the repair of F35; a
    margin of 100 is kept) of a cell centre of some level without being (numerically) on it -
    whether such a plane is snapped onto the centre or interpolated is not judged"""
    for lv in range(L + 1):
        dx = m.dx[lv][n]
        t = (pos - m.geo_low[n]) / dx - 0.5
        d = abs(t - round(t))
        if 1e-9 < d < 1e-4:
            return True
    return False
