"""M5 — poison allocator (the MSan analogue for np.empty planes): Mandoline.limit_level_arr and
np.empty / np.empty_like as looked up from the modules that use them return arrays pre-filled
with a poison value. A result that depends on never-written memory then differs between two
runs with different poison, or carries the poison."""
import numpy as np
from . import common

POISON = [np.nan]
_orig = {}


class _NP:
    """proxy for the numpy module seen by one repository module: poisoned empty()"""

    def __init__(self, real):
        self.__dict__["_real"] = real

    def __getattr__(self, name):
        return getattr(self._real, name)

    def empty(self, shape, dtype=float, *a, **k):
        arr = self._real.empty(shape, dtype, *a, **k)
        if arr.dtype.kind == "f":
            arr[...] = POISON[0]
        elif arr.dtype.kind in "iu":
            arr[...] = -(2 ** 40) + 12345
        return arr

    def empty_like(self, proto, *a, **k):
        arr = self._real.empty_like(proto, *a, **k)
        if arr.dtype.kind == "f":
            arr[...] = POISON[0]
        return arr


def install(modules=("amr_kitchen.mandoline.mandoline",)):
    for name in modules:
        mod = common.repo_module(name)
        if name not in _orig and hasattr(mod, "np"):
            _orig[name] = mod.np
            mod.np = _NP(mod.np)


def set_poison(v):
    POISON[0] = v


def has_poison(arr, v=None):
    v = POISON[0] if v is None else v
    a = np.asarray(arr)
    if a.dtype.kind != "f":
        return False
    if v != v:
        return bool(np.isnan(a).any())
    return bool((a == v).any())
