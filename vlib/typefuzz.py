"""Argument-type variation (installed from the harness, off with VERIF_TYPES=plain). The checks call the
repository's classes with built-in types; a caller may just as well hand them numpy scalars (a level taken
from an array, a position computed with numpy), pathlib.Path objects, tuples or arrays of names. Wrappers on
the public constructors / functions replace, for about half of the calls (decided by a hash of the
arguments, so runs are reproducible), the built-in values by such equivalents *before* the repository code
sees them. What the call returns or writes is judged by the check exactly as before.

A type the code *refuses* is no violation (the statements say nothing about argument types): when the varied
call raises and the same call with the built-in types does not, the built-in result is used and the refusal is
counted. A varied call that silently does something else is what the oracles then see."""
import os, inspect, functools, hashlib, pathlib
import numpy as np

STATS = {}
_busy = [0]


def _count(k):
    STATS[k] = STATS.get(k, 0) + 1


def _path(x, h):
    return pathlib.Path(x) if type(x) is str and x else x


def _int(x, h):
    if type(x) is int:
        if x in (0, 1) and h % 5 == 4:
            return bool(x)             # True == 1, False == 0: a flag computed elsewhere used as a small number
        return (np.int64, np.int32, np.int64)[h % 3](x) if abs(x) < 2 ** 31 else np.int64(x)
    return x


def _float(x, h):
    if type(x) is float:
        if x.is_integer() and abs(x) < 2 ** 31 and h % 3 == 0:
            return (int, np.int64)[(h >> 2) % 2](x)      # a whole-number coordinate handed over as an integer
        return np.float64(x)
    return x


def _name(x, h):
    return np.str_(x) if type(x) is str else x


def _names(x, h):
    if type(x) is str:
        return np.str_(x)
    if type(x) is list and x and all(type(v) is str for v in x):
        return (tuple(x), np.array(x), [np.str_(v) for v in x])[h % 3]
    return x


# types seen accepted / refused per (callable, parameter types): a type that a callable accepts for one input and
# chokes on for another is not a refusal of the type but a defect on that input
ACCEPTED = set()
REFUSED = {}


KINDS = {"path": _path, "int": _int, "float": _float, "name": _name, "names": _names}

# the documented order of the parameters (README / docstrings of the pinned sources): a caller may pass them by
# position. Passing by position in THIS order must mean the same as passing by keyword.
DOC_ORDER = {
    "PlotfileCooker": ["plotfile_path", "limit_level", "header_only", "validate_mode", "maxmins", "ghost"],
    "Taster": ["plt_file", "limit_level", "binary_headers", "binary_shape", "binary_data", "boxes_coordinates", "nofail", "verbose"],
    "Colander": ["plotfile", "limit_level", "output", "variables", "allow_missing"],
    "Mandoline": ["plotfile", "fields", "limit_level", "serial", "verbose"],
    "Mandoline.slice": ["normal", "pos", "outfile", "fformat"],
    "Chef": ["plotfile", "recipe", "outfile", "species", "reactions", "mech", "pressure", "serial", "kept_fields"],
    "chk2plt": ["chkdir", "target_plotfile", "species", "gradp", "species_reactions", "floor_massfracs", "pltdir"],
    "combine": ["pck1", "pck2", "pltout", "vars1", "vars2", "inplace"],
    "volume_integral": ["pck", "field", "limit_level", "use_volfrac"],
}


def _positional(sig, na, order):
    """the call spelled with positional arguments in the documented order (None when that is not possible)"""
    given = [n for n in order if n in na]
    if not given or any(n not in order and n != "self" for n in na):
        return None
    last = max(order.index(n) for n in given)
    pos = []
    for n in order[:last + 1]:
        if n in na:
            pos.append(na[n])
        else:
            p = sig.parameters.get(n)
            if p is None or p.default is inspect.Parameter.empty:
                return None
            pos.append(p.default)
    return ([na["self"]] if "self" in na else []) + pos


def vary(fn, spec, label):
    sig = inspect.signature(fn)

    @functools.wraps(fn)
    def wrapper(*a, **k):
        if _busy[0]:
            return fn(*a, **k)          # a nested call made by the repository itself: leave it alone
        try:
            ba = sig.bind(*a, **k)
        except TypeError:
            return fn(*a, **k)
        h = int(hashlib.sha256((label + repr([(n, repr(v)[:80]) for n, v in ba.arguments.items() if n != "self"])).encode()).hexdigest(), 16)
        if h % 2 == 0 and not ((h >> 1) % 2 == 1 and k and label in DOC_ORDER):
            return fn(*a, **k)
        changed = False
        na = dict(ba.arguments)
        for n, kind in (spec.items() if h % 2 == 1 else ()):
            if n in na:
                if kind == "floats*":      # *args of floats
                    nv = tuple(_float(v, h) for v in na[n])
                else:
                    nv = KINDS[kind](na[n], h >> 3)
                if nv is not na[n] and type(nv) is not type(na[n]):
                    changed = True
                elif kind == "floats*" and any(type(x) is not type(y) for x, y in zip(nv, na[n])):
                    changed = True
                na[n] = nv
        # the call spelled with positional arguments in the documented order (for a quarter of the calls)
        posargs = _positional(sig, na, DOC_ORDER[label]) if label in DOC_ORDER and (h >> 1) % 2 == 1 and k else None
        if not changed and posargs is None:
            return fn(*a, **k)
        nb = sig.bind_partial()
        nb.arguments.update(na)
        if changed:
            _count("type_varied_calls:" + label)
        if posargs is not None:
            _count("positional_calls:" + label)
        tsig = (label, tuple(sorted((n, type(v).__name__) for n, v in na.items() if n in spec and n in ba.arguments
                                    and type(v) is not type(ba.arguments[n]))), posargs is not None)
        _busy[0] += 1
        try:
            try:
                r = fn(*posargs) if posargs is not None else fn(*nb.args, **nb.kwargs)
                ACCEPTED.add(tsig)
                return r
            except Exception as e:
                first = e
        finally:
            _busy[0] -= 1
        # the varied call raised: a refusal of the type, or what the call does anyway?
        _busy[0] += 1
        try:
            r = fn(*a, **k)             # raises the call's own exception if it fails with built-in types too
        finally:
            _busy[0] -= 1
        _count("type_variants_refused:" + label + ":" + type(first).__name__)
        REFUSED.setdefault(tsig, f"{type(first).__name__}: {str(first)[:120]}")
        return r
    wrapper.__verif_typefuzz__ = True
    return wrapper


def install():
    if os.environ.get("VERIF_TYPES", "vary") != "vary":
        return
    from . import common
    import amr_kitchen
    P = common.repo_module("amr_kitchen.plotfile_cooker")

    def patch(owner, name, spec, label):
        fn = getattr(owner, name, None)
        if fn is None or getattr(fn, "__verif_typefuzz__", False):
            return
        try:
            setattr(owner, name, vary(fn, spec, label))
        except Exception:
            pass
    patch(P.PlotfileCooker, "__init__", {"plotfile_path": "path", "limit_level": "int"}, "PlotfileCooker")
    patch(P.LevelDataSelector, "__getitem__", {"key": "int"}, "level")
    patch(P.LevelDataSelector, "__call__", {"args": "floats*"}, "point")
    for modname, cls, spec in (
            ("amr_kitchen.taste.taste", "Taster", {"plt_file": "path", "limit_level": "int"}),
            ("amr_kitchen.colander.colander", "Colander", {"plotfile": "path", "output": "path", "variables": "names", "limit_level": "int"}),
            ("amr_kitchen.mandoline.mandoline", "Mandoline", {"plotfile": "path", "fields": "names", "limit_level": "int"}),
            ("amr_kitchen.chef.chef", "Chef", {"plotfile": "path", "outfile": "path", "pressure": "float", "kept_fields": "name"}),
            ("amr_kitchen.chk2plt.chk2plt", "chk2plt", {"chkdir": "path", "target_plotfile": "path", "species": "names", "pltdir": "path"})):
        try:
            c = getattr(common.repo_module(modname), cls)
            patch(c, "__init__", spec, cls)
        except Exception:
            pass
    try:
        M = common.repo_module("amr_kitchen.mandoline.mandoline").Mandoline
        patch(M, "slice", {"normal": "int", "pos": "float"}, "Mandoline.slice")
    except Exception:
        pass
    try:
        pm = common.repo_module("amr_kitchen.pestle.pestle")
        patch(pm, "volume_integral", {"field": "name", "limit_level": "int"}, "volume_integral")
        cm = common.repo_module("amr_kitchen.combine.combine")
        patch(cm, "combine", {"pltout": "path"}, "combine")
    except Exception:
        pass
