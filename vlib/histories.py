"""Multi-invocation histories run in ONE process under real pools (M2): pathos caches its worker
processes, so module-level state inherited at the first fork can go stale between invocations.
Every step is compared (by the caller) with the same step done alone in a fresh process."""
import os
import numpy as np
from . import common, gen, scenarios, refmodel

MECH = os.path.join(common.REPO, "test_assets", "drm19.yaml")


def _thermo(work, name, seed, shape_bf):
    import cantera as ct
    sp = ct.Solution(MECH).species_names
    names = ["density", "temp"] + [f"Y({s})" for s in sp]
    m = gen.gen_model(seed=seed, ndims=3, nlevels=1, bf=shape_bf, base_blocks=(2, 2), maxsz=shape_bf,
                      names=names, payload="thermo", nfiles=2)
    p = os.path.join(work, name)
    gen.write_plotfile(m, p)
    return p


def run(history, work, seed):
    """history = list of steps; returns list of per-step digests"""
    from amr_kitchen.chef import Chef
    from amr_kitchen.mandoline import Mandoline
    from amr_kitchen.chk2plt.chk2plt import chk2plt
    out = []
    plts = {}
    for i, st in enumerate(history):
        o = os.path.join(work, f"h{i}")
        if st["tool"] == "chef_sdi":
            key = ("thermo", st["bf"])
            if key not in plts:
                plts[key] = _thermo(work, f"plt_th{st['bf']}", seed, st["bf"])
            Chef(plotfile=plts[key], recipe="SDi", species=["H2", "O2"], outfile=o, mech=MECH,
                 pressure=st["pressure"], serial=st.get("serial", False)).cook()
            out.append(refmodel.tree_digest(o))
        elif st["tool"] == "chef_user":
            sc = scenarios.ChefS()
            ctx = sc.prepare(os.path.join(work, f"in{i}"), seed + st.get("dseed", 0))
            os.makedirs(o, exist_ok=True)
            res = sc.run(ctx, o, serial=st.get("serial", False))
            out.append(scenarios.canonical(res)[0])
        elif st["tool"] == "mandoline":
            if "mand" not in plts:
                m, p = scenarios._plt(work, "plt_hm", seed)
                plts["mand"] = (m, Mandoline(p, fields=["f0", "grid_level"], verbose=0))
            m, md = plts["mand"]
            n = st["normal"]
            pos = m.geo_low[n] + st["frac"] * (m.geo_high[n] - m.geo_low[n])
            r = md.slice(normal=n, pos=pos, fformat="return")
            out.append(scenarios.vals_digest({k: np.asarray(v) for k, v in r.items()}))
        elif st["tool"] == "chk2plt":
            sc = scenarios.Chk2pltS()
            ctx = sc.prepare(os.path.join(work, f"in{i}"), seed + st.get("dseed", 0))
            os.makedirs(o, exist_ok=True)
            out.append(scenarios.canonical(sc.run(ctx, o))[0])
        else:
            raise ValueError(st["tool"])
    return out
