"""Independent validator implementing exactly the inconsistency classes named in C04 (used to
*classify* corrupted plotfiles; never looks at min/max tables, payload values or levels above
the limit). A directory is in scope for C04 iff flags() is non-empty.
  S-a  a file named by a FabOnDisk line is absent from its level directory
  S-d  level header does not parse (lenient token grammar), counts disagree with each other or
       with the plotfile Header, or the text line at a recorded (file, offset) cannot be read
       as a FAB header (offset outside the file, non-ASCII bytes, no box descriptor at its end)
  S-c  that descriptor's index range differs from the level header's range for the box, or
       its component count from the plotfile Header's field count
  S-b  walking each file from byte 0 through its boxes in recorded-offset order, each FAB being
       header line + prod(shape)*ncomp*8 bytes, does not meet at every step a header line that
       starts with the FAB keyword at exactly that byte and names the expected box, or does not
       end exactly at end of file
  S-e  (box-coordinate validation) a physical bound differs from lo + index*dx by > 1/4 cell
"""
import os, re
import numpy as np
from . import refparse

DESC = re.compile(rb"\(\(([-\d,]+)\)\s*\(([-\d,]+)\)\s*\(([-\d,]+)\)\)\s+(\d+)\s*$")


class Unparseable(Exception):
    pass


def _ints(tok, nd):
    t = tok.replace("(", "").replace(")", "")
    parts = t.split(",")
    if len(parts) != nd:
        raise Unparseable(tok)
    out = []
    for p in parts:
        if not re.fullmatch(r"\s*[-+]?\d+\s*", p):
            raise Unparseable(tok)
        out.append(int(p))
    return out


def _int(tok):
    if not re.fullmatch(r"\s*[-+]?\d+\s*", tok):
        raise Unparseable(tok)
    return int(tok)


def lenient_cell_h(cpath, nd):
    """-> (idx list, fod list) with a generous token grammar; raises Unparseable"""
    try:
        with open(cpath, "rb") as f:
            raw = f.read()
        text = raw.decode("ascii")
    except Exception as e:
        raise Unparseable(str(e))
    C = text.split("\n")
    try:
        for j in range(4):
            _int(C[j])
        toks = C[4].split()
        n = _int(toks[0].replace("(", ""))
        j = 5
        idx = []
        for b in range(n):
            t = C[j].split(); j += 1
            if len(t) != 3:
                raise Unparseable("index line tokens")
            idx.append((_ints(t[0], nd), _ints(t[1], nd)))
        if C[j].strip() != ")":
            raise Unparseable("closing line")
        j += 1
        if _int(C[j]) != n:
            raise Unparseable("FabOnDisk count differs from box count")
        j += 1
        fod = []
        for b in range(n):
            t = C[j].split(); j += 1
            if len(t) != 3 or not t[0].startswith("FabOnDisk"):
                raise Unparseable("FabOnDisk tokens")
            fod.append((t[1], _int(t[2])))
    except IndexError:
        raise Unparseable("short level header")
    return idx, fod


def fab_line(fpath, off, at_start=False):
    """the descriptor (lo, hi, ncomp, header length) readable at (file, offset) or None.
    at_start: the FAB header must *begin* at that byte (sequential walk of a file: a FAB is a
    header line + its payload, so data inserted or removed before it shifts the 'FAB' keyword
    even when the tail of the line still parses)"""
    size = os.path.getsize(fpath)
    if off < 0 or off >= size:
        return None
    with open(fpath, "rb") as f:
        f.seek(off)
        line = f.readline(1 << 20)
    if not line.endswith(b"\n") or any(c >= 0x80 for c in line):
        return None
    if at_start and not line.startswith(b"FAB "):
        return None
    m = DESC.search(line)
    if not m:
        return None
    try:
        return refparse.ints(m.group(1)), refparse.ints(m.group(2)), int(m.group(4)), len(line)
    except Exception:
        return None


def flags(path, limit=None, coords=False):
    """set of inconsistency flags for levels 0..limit of the directory"""
    out = set()
    try:
        H = refparse.parse_header(path)
    except Exception:
        return {"global-header-unparseable"}
    nd = H["ndims"]
    nf = len(H["names"])
    L = H["finest"] if limit is None else min(limit, H["finest"])
    for lv in range(L + 1):
        lev = H["levels"][lv]
        ldir = os.path.join(path, lev["cell_path"].split("/")[0])
        try:
            idx, fod = lenient_cell_h(os.path.join(ldir, "Cell_H"), nd)
        except Unparseable as e:
            out.add(f"S-d:lv{lv}:level header: {e}")
            continue
        if len(idx) != lev["nboxes"]:
            out.add(f"S-d:lv{lv}:level header lists {len(idx)} boxes, Header {lev['nboxes']}")
        desc = {}
        for bi, ((lo, hi), (fn, off)) in enumerate(zip(idx, fod)):
            fp = os.path.join(ldir, fn)
            if os.sep in fn or not os.path.isfile(fp):
                out.add(f"S-a:lv{lv}:{fn} missing")
                continue
            d = fab_line(fp, off)
            if d is None:
                out.add(f"S-d:lv{lv}:box {bi}: no FAB header readable at {fn}:{off}")
                continue
            desc[bi] = d
            if d[0] != lo or d[1] != hi:
                out.add(f"S-c:lv{lv}:box {bi}: index range differs")
            if d[2] != nf:
                out.add(f"S-c:lv{lv}:box {bi}: component count {d[2]} != {nf}")
        # S-b: sequential walk of each file
        byfile = {}
        for bi, (fn, off) in enumerate(fod):
            byfile.setdefault(fn, []).append((off, bi))
        for fn, lst in byfile.items():
            fp = os.path.join(ldir, fn)
            if os.sep in fn or not os.path.isfile(fp):
                continue
            size = os.path.getsize(fp)
            pos = 0
            lst.sort()
            bad = None
            for off, bi in lst:
                d = fab_line(fp, pos, at_start=True)
                if d is None:
                    bad = f"no FAB header starts at byte {pos} (box {bi} expected)"
                    break
                lo, hi = idx[bi]
                if d[0] != lo or d[1] != hi:
                    bad = f"FAB at byte {pos} is not box {bi}"
                    break
                shape = [b - a + 1 for a, b in zip(d[0], d[1])]
                if any(s <= 0 for s in shape):
                    bad = "non-positive shape"
                    break
                pos += d[3] + int(np.prod(shape)) * d[2] * 8
            if bad is None and pos != size:
                bad = f"walk ends at {pos}, file has {size} bytes"
            if bad:
                out.add(f"S-b:lv{lv}:{fn}: {bad}")
        if coords:
            for bi, (lo, hi) in enumerate(idx):
                if bi >= len(lev["phys"]):
                    break
                for d in range(nd):
                    dx = H["dx"][lv][d]
                    elo = H["geo_low"][d] + lo[d] * dx
                    ehi = H["geo_low"][d] + (hi[d] + 1) * dx
                    plo, phi = lev["phys"][bi][d]
                    if abs(plo - elo) > dx / 4 or abs(phi - ehi) > dx / 4:
                        out.add(f"S-e:lv{lv}:box {bi} dim {d}")
    return out
