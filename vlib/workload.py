"""Shared workload helpers: populations of generator parameters, plotfile creation for a case,
worker-call counters on the repository's reader functions."""
import os, random
import numpy as np
from . import gen, common


def reader_population(n, seed, ndims=(2, 3), payloads=("random", "special", "extreme"), max_levels=4,
                      max_fields=8):
    """n parameter sets for gen.gen_model + write format variants, spread over the classes the
    properties quantify over (dims, levels, bf incl. 1 => extent-1 boxes, layouts, payloads)."""
    rng = random.Random(seed * 1000003 + 17)
    out = []
    for i in range(n):
        nd = ndims[i % len(ndims)]
        bf = rng.choice([1, 2, 4, 4, 8]) if nd == 3 else rng.choice([1, 2, 4, 8])
        nl = 1 + (i // len(ndims)) % max_levels
        if bf == 8 and nd == 3:
            nl = min(nl, 2)
        if bf == 4 and nd == 3:
            nl = min(nl, 3)
        g = dict(seed=rng.randrange(10 ** 9), ndims=nd, nlevels=nl,
                 nfields=rng.choice([1, 2, 3, 5, max_fields, rng.randint(1, 12)]),
                 bf=bf, payload=payloads[(i // 2) % len(payloads)],
                 shuffle=rng.random() < 0.8,
                 base_blocks=(1, 3) if bf >= 4 else (2, 5))
        if rng.random() < 0.3:
            g["nfiles"] = rng.choice([1, 2, 7])
        if i % 16 == 13:      # scale: 100+ one-cell boxes at level 0, all in one file / spread over 40 files
            g.update(bf=1, maxsz=1, base_blocks=(10, 12) if nd == 2 else (5, 5), nlevels=min(nl, 2),
                     nfiles=[1, 40][(i // 16) % 2], nfields=min(g["nfields"], 3))
        if i % 16 == 3:       # six-digit binary file numbers (Cell_D_100007: what a level with 100000+ files has)
            g["file_id_base"] = [100000, "mixed"][(i // 16) % 2]      # "mixed": five- and six-digit numbers at one level
            if g["file_id_base"] == "mixed" and g.get("nfiles", 2) < 2:
                g["nfiles"] = 2
        if i % 16 == 11:      # the same geometry in micrometres / nanometres (tiny cells in absolute terms)
            # ... or in centimetres across a galaxy: header numbers with positive exponents (1.5e+22)
            g["length_scale"] = [1e-6, 1e20, 1e-9][(i // 16) % 3]
        if i % 16 == 5:       # far from the origin: coordinate / cell size of 1e5 .. 1e7
            g["origin"] = [rng.choice([1.0e5, -3.0e5, 2.5e6]) for _ in range(nd)]
        if i % 16 == 1:       # negative whole-number bounds: "%.17g" writes them without a decimal point ("-1 -2 3")
            g["origin"] = [-1.0, -2.0, 3.0][:nd]
        if i % 16 == 9 and max_fields >= 8:      # as many fields as real output has; 3-digit component counts
            g["nfields"] = [38, 101][(i // 16) % 2]
        if i % 16 == 10 and g["nfields"] <= 12:      # names that differ only in letter case, or are part of one another
            g["nfields"] = max(g["nfields"], 3)
            g["names"] = gen.confusable_names(random.Random(g["seed"]), g["nfields"])
        f = dict(ref_ratio_extra=rng.choice([0, 0, 1, 3]), trailing_blank=rng.random() < 0.7,
                 close_blank=rng.random() < 0.3, floatfmt=rng.choice(["repr", "17g"]))
        if i % 16 == 12:      # level directories under another prefix than the default (the Header says where they are)
            f["level_prefix"] = ["Lev_", "amr_level_"][(i // 16) % 2]
        if i % 9 == 4:
            f["path_blank"] = True
        if i % 9 == 7:
            f["final_newline"] = False
        c = {"gen": g, "fmt": f}
        if i % 16 == 7:       # reached through `<symlinked directory>/../<name>`; every other one with a decoy plotfile
            c["reach"] = ["link_dotdot_decoy", "link_dotdot"][(i // 16) % 2]      # where the path collapses lexically
        if i % 16 == 15:      # binary files kept in a store under other names and linked into the level directories
            c["store"] = ["files", "files+levels"][(i // 16) % 2]
        if i % 8 == 6:        # foreign files in and beside the plotfile directory, a stale finer level directory
            c["litter"] = True
        out.append(c)
    return out


def add_reach_store(cs, period=11):
    """mark some cases of a list (those built by build() from a 'gen' entry): the plotfile is reached through
    `<symlinked directory>/../<name>` (with / without a decoy where the path collapses lexically), or keeps its
    binary files in a store, linked into the level directories (and the level directories linked too)"""
    k = 0
    for c in cs:
        if not isinstance(c, dict) or "gen" not in c or c.get("reach") or c.get("store") or c.get("deepen"):
            continue
        if k % period == 4:
            c["reach"] = ["link_dotdot_decoy", "link_dotdot"][(k // period) % 2]
        elif k % period == 9:
            c["store"] = ["files", "files+levels"][(k // period) % 2]
        elif k % period in (2, 7):
            c["litter"] = True
        k += 1
    return cs


TOKENS_DIR = "steady_state_Cell_D_Level_0_chk_plt_Header"


def out_path(work, name, k, rec=None):
    """Where a requested output goes: every third one (k % 3 == 1) lies under a directory whose NAME contains the
    words the tools look for or rewrite in file names (state, Cell, _D_, Level_, chk, plt, Header). What is
    written must not depend on how the directories above it are called."""
    if k % 3 != 1:
        return os.path.join(work, name)
    d = os.path.join(work, TOKENS_DIR)
    os.makedirs(d, exist_ok=True)
    if rec is not None:
        rec.count("outputs_under_a_directory_named_with_format_words")
    return os.path.join(d, name)


def add_litter(path):
    """What else may lie in and beside a plotfile directory without being part of it - the Header and the level
    headers say what belongs: editor backups and temporary copies of the headers, hidden files, a backup of a
    binary file, a foreign text file, a stale finer level left by an earlier, deeper run (a copy of the finest
    level's directory under the next level number), a stale sibling file beside the directory."""
    import shutil
    lvdirs = sorted(d for d in os.listdir(path) if os.path.isdir(os.path.join(path, d)))
    for name, src in (("Header~", "Header"), ("Header.tmp", "Header"), (".Header.swp", None), ("notes.txt", None)):
        with open(os.path.join(path, name), "wb") as f:
            f.write(open(os.path.join(path, src), "rb").read()[:-7] + b"garbage\n" if src else b"not a header\n\x00\xff\n")
    for d in lvdirs:
        ld = os.path.join(path, d)
        files = sorted(f for f in os.listdir(ld) if "_D_" in f)
        with open(os.path.join(ld, "Cell_H~"), "w") as f:
            f.write("1\n1\n999\n0\n(0 0\n)\n0\n")
        with open(os.path.join(ld, "Cell_H.bak"), "w") as f:
            f.write("stale\n")
        with open(os.path.join(ld, ".nfs0001"), "wb") as f:
            f.write(b"\x00" * 17)
        if files:
            with open(os.path.join(ld, files[0] + ".bak"), "wb") as f:
                f.write(b"FAB garbage that is no FAB\n" + b"\x01" * 64)
    # a stale finer level: the directory the next level would have
    m_ = [d for d in lvdirs if d.rstrip("0123456789") != d]
    if m_:
        last = m_[-1]
        prefix = last.rstrip("0123456789")
        nxt = os.path.join(path, prefix + str(int(last[len(prefix):]) + 1))
        if not os.path.exists(nxt):
            shutil.copytree(os.path.join(path, last), nxt)
    with open(path + ".old", "w") as f:
        f.write("a file beside the plotfile directory\n")
    try:
        _foreign_multifabs(path)
    except Exception:
        pass        # not a plotfile the independent parser reads (a checkpoint, a 2D slice being built): the rest stays
    return path


def _foreign_multifabs(path):
    """Well-formed data in a level directory that the level header does not list: a second MultiFab on the same
    boxes (`Avg_H` + `Avg_D_00000`: every FAB of the level, other values, in reverse order in one file - AMReX
    writes such companions, e.g. nodal data), a stale `Cell_D_<n+1>` left by an earlier output with more files
    (valid FABs, other values), the AppleDouble companion `._Cell_H`, and a subdirectory holding a copy of the
    level header. None of them is named by `Cell_H`."""
    import numpy as np
    from . import mutate
    inf = mutate.info(path)
    for L in inf["levels"]:
        ld = L["dir"]
        listed = sorted(L["files"])
        newoff = {}
        with open(os.path.join(ld, "Avg_D_00000"), "wb") as out:
            for b in reversed(L["boxes"]):
                with open(os.path.join(ld, b["file"]), "rb") as f:
                    f.seek(b["off"])
                    hdr = f.readline()
                    pay = np.frombuffer(f.read(b["plen"]), "<f8") * 0.5 + 7.0
                newoff[b["bi"]] = out.tell()
                out.write(hdr)
                out.write(pay.tobytes())
        k, lines = 0, []
        with open(os.path.join(ld, "Cell_H")) as f:
            for ln in f.read().split("\n"):
                if ln.startswith("FabOnDisk:"):
                    ln = f"FabOnDisk: Avg_D_00000 {newoff[k]}"
                    k += 1
                lines.append(ln)
        with open(os.path.join(ld, "Avg_H"), "w") as f:
            f.write("\n".join(lines))
        with open(os.path.join(ld, "._Cell_H"), "wb") as f:
            f.write(b"\x00\x05\x16\x07\x00\x02\x00\x00Mac OS X        " + bytes(range(128, 256)))
        # a stale binary file: the FABs of the first listed file with other values, under the next free number
        stem = listed[-1].rsplit("_", 1)[0]
        width = len(listed[-1].rsplit("_", 1)[1])
        nxt = max(int(fn.rsplit("_", 1)[1]) for fn in listed) + 1
        with open(os.path.join(ld, f"{stem}_{nxt:0{width}d}"), "wb") as out:
            for bi in L["files"][listed[0]]:
                b = L["boxes"][bi]
                with open(os.path.join(ld, b["file"]), "rb") as f:
                    f.seek(b["off"])
                    out.write(f.readline())
                    out.write((np.frombuffer(f.read(b["plen"]), "<f8") * 0.0 - 778.0).tobytes())
        os.makedirs(os.path.join(ld, "backup"), exist_ok=True)
        shutil.copy(os.path.join(ld, "Cell_H"), os.path.join(ld, "backup", "Cell_H"))


def stale_output(out, src):
    """the requested output path holds what an earlier, DEEPER run of something else left there: a complete copy
    of another plotfile (all its levels, files and fields), plus litter"""
    import shutil
    shutil.rmtree(out, ignore_errors=True)
    shutil.copytree(src, out)
    add_litter(out)
    return out


def to_store(path, level_links=False):
    """Move the binary files of a written plotfile into a store and link them back under the names the level
    headers list. The link targets carry *other* names (the names of the level's files, rotated) in
    directories named like the level; with level_links the level directories themselves become links to
    differently named directories. What the plotfile states is unchanged: every listed name opens the
    same bytes as before."""
    store = path + "_store"
    for lvd in sorted(d for d in os.listdir(path) if os.path.isdir(os.path.join(path, d))):
        phys = os.path.join(path, lvd)
        if level_links:
            bulk = os.path.join(path + "_bulk", "run7_" + lvd.lower().replace("_", ""))
            os.makedirs(os.path.dirname(bulk), exist_ok=True)
            os.rename(phys, bulk)
            os.symlink(bulk, phys)
            phys = bulk
        files = sorted(f for f in os.listdir(phys) if "_D_" in f)      # Cell_D_* (plotfiles), state_D_* ... (checkpoints)
        os.makedirs(os.path.join(store, lvd))
        for k, f in enumerate(files):
            tgt = os.path.join(store, lvd, files[(k + 1) % len(files)] if len(files) > 1 else "part_" + f)
            os.rename(os.path.join(phys, f), tgt)
        for k, f in enumerate(files):
            tgt = os.path.join(store, lvd, files[(k + 1) % len(files)] if len(files) > 1 else "part_" + f)
            os.symlink(tgt, os.path.join(phys, f))
    return path


def reach_link_dotdot(work, path, decoy=None, fmt=None):
    """Move a written plotfile to <work>/archive/run/<name> and return the path <work>/runs/latest/../<name>,
    where `latest` is a symbolic link to <work>/archive/run/out: the operating system resolves the link
    first (-> archive/run/<name>), a lexical normalisation collapses the path to <work>/runs/<name>. There a
    decoy (another plotfile of that name, same mesh, other data and time) is written when a model is given."""
    name = os.path.basename(path)
    real_parent = os.path.join(work, "archive", "run")
    os.makedirs(os.path.join(real_parent, "out"), exist_ok=True)
    os.rename(path, os.path.join(real_parent, name))
    os.makedirs(os.path.join(work, "runs"), exist_ok=True)
    if not os.path.islink(os.path.join(work, "runs", "latest")):
        os.symlink(os.path.join("..", "archive", "run", "out"), os.path.join(work, "runs", "latest"))
    if decoy is not None:
        gen.write_plotfile(decoy, os.path.join(work, "runs", name), **(fmt or {}))
    return os.path.join(work, "runs", "latest", "..", name)


def build(case, work, name="plt00010"):
    if case.get("scale"):      # inputs of the sizes real runs reach (gen.scale_model)
        m = gen.scale_model(case["scale"], **case["gen"])
    else:
        m = gen.gen_model(**case["gen"])
    if case.get("deepen"):
        gen.deepen(m, case["deepen"], case["gen"]["seed"])
    if case.get("zero_fine"):
        gen.zero_fine(m, case["gen"]["seed"])
    if case.get("ratio4") and m.nlevels >= 2:      # the finest level refined by 4 (ratio line `2 4`): C19 only
        gen.refine_top(m, case["gen"]["seed"], from_level=1 if case["ratio4"] == "coarse" else None)
    if case.get("zero_last"):      # the last field is exactly +0.0 everywhere (an absent species): every FAB ends in NUL bytes
        for lv in range(m.nlevels):
            for bi in range(len(m.data[lv])):
                a = m.data[lv][bi] = np.array(m.data[lv][bi], dtype=np.float64, order="F", copy=True)
                a[..., -1] = 0.0
    if case.get("ties"):
        gen.tie_extrema(m, case["gen"]["seed"])
    if case.get("uniform_boxes"):
        gen.uniform_boxes(m, case["gen"]["seed"])
    if case.get("long_max"):
        gen.plant_long_max(m, case["gen"]["seed"])
    if case.get("poison_covered"):
        m.poisoned_cells = gen.poison_covered(m, case["gen"]["seed"])
    path = os.path.join(work, name)
    if case.get("store") or case.get("reach"):      # a case may build twice in one directory
        import shutil
        for d in (path, path + "_store", path + "_bulk", os.path.join(work, "archive"), os.path.join(work, "runs")):
            shutil.rmtree(d, ignore_errors=True)
    gen.write_plotfile(m, path, **case.get("fmt", {}))
    if case.get("litter"):
        add_litter(path)
    if case.get("store"):
        to_store(path, level_links="levels" in case["store"])
    if case.get("reach"):
        decoy = None
        if case["reach"].endswith("decoy") and not case.get("scale"):
            decoy = gen.gen_model(**dict(case["gen"], data_seed=case["gen"]["seed"] + 77))
            decoy.time = m.time + 1.0 if m.time == m.time and abs(m.time) != float("inf") else 0.5
        path = reach_link_dotdot(work, path, decoy, case.get("fmt"))
    return m, path


READERS = ["mp_read_box_single_field", "mp_read_box_slice_field", "mp_read_box_index_field",
           "mp_read_bfile_single_field", "mp_read_bfile_slice_field", "mp_read_bfile_index_field"]


class CallLog:
    """Counting wrappers around module-level functions (stay picklable by reference is not
    needed under M1's in-process mode). log[name] = number of calls."""

    def __init__(self):
        self.n = {}

    def wrap(self, mod, name, post=None):
        orig = getattr(mod, name)
        log = self

        def wrapper(*a, **k):
            log.n[name] = log.n.get(name, 0) + 1
            r = orig(*a, **k)
            if post is not None:
                post(r, *a, **k)
            return r
        wrapper.__name__ = name
        wrapper.__wrapped__ = orig
        setattr(mod, name, wrapper)
        return orig


def build_huge(work, seed, nfields=132):
    """single-level 3D plotfile whose first binary file is larger than 2 GiB: a 128^3 box of `nfields`
    fields (all zero, written as a hole: nothing is allocated on disk) followed by three small boxes with
    random data at byte offsets beyond 2**31, and one more box in a second file.
    -> (path, [(lo, hi, array or None)], names): array None for the big box (all zeros)"""
    import numpy as np
    rng = np.random.default_rng(seed)
    path = os.path.join(work, "plt_huge")
    os.makedirs(os.path.join(path, "Level_0"))
    names = [f"f{i}" for i in range(nfields)]
    boxes = [((0, 0, 0), (127, 127, 127)), ((0, 0, 128), (127, 127, 129)), ((0, 0, 130), (127, 127, 131)),
             ((0, 0, 132), (127, 127, 133)), ((0, 0, 134), (127, 127, 135))]
    files = ["Cell_D_00000"] * 4 + ["Cell_D_00001"]
    data, offsets = [], []
    handles = {}
    for (lo, hi), fn in zip(boxes, files):
        fh = handles.get(fn) or handles.setdefault(fn, open(os.path.join(path, "Level_0", fn), "wb"))
        offsets.append(fh.tell())
        shp = tuple(h - l + 1 for l, h in zip(lo, hi))
        fh.write((gen.FABHDR + "((%d,%d,%d) (%d,%d,%d) (0,0,0)) %d\n" % (lo + hi + (nfields,))).encode("ascii"))
        if shp[2] == 128:
            fh.seek(int(np.prod(shp)) * nfields * 8, 1)      # a hole: reads back as zeros
            data.append(None)
        else:
            a = np.asfortranarray(rng.standard_normal(shp + (nfields,)))
            fh.write(a.tobytes(order="F"))
            data.append(a)
    for fh in handles.values():
        fh.truncate(fh.tell())
        fh.close()
    dx = 0.125
    with open(os.path.join(path, "Level_0", "Cell_H"), "w") as ch:
        ch.write("1\n1\n%d\n0\n(%d 0\n" % (nfields, len(boxes)))
        for lo, hi in boxes:
            ch.write("((%d,%d,%d) (%d,%d,%d) (0,0,0))\n" % (lo + hi))
        ch.write(")\n%d\n" % len(boxes))
        for fn, off in zip(files, offsets):
            ch.write(f"FabOnDisk: {fn} {off}\n")
        for tab in (np.min, np.max):
            ch.write("\n%d,%d\n" % (len(boxes), nfields))
            for a in data:
                row = [0.0] * nfields if a is None else [float(tab(a[..., c])) for c in range(nfields)]
                ch.write(",".join("%.16e" % v for v in row) + ",\n")
    with open(os.path.join(path, "Header"), "w") as h:
        h.write("HyperCLaw-V1.1\n%d\n" % nfields + "".join(n + "\n" for n in names))
        h.write("3\n0.5\n0\n0.0 0.0 0.0\n%r %r %r\n\n" % (128 * dx, 128 * dx, 136 * dx))
        h.write("((0,0,0) (127,127,135) (0,0,0))\n7\n%r %r %r\n0\n0\n" % (dx, dx, dx))
        h.write("0 %d 0.5\n7\n" % len(boxes))
        for lo, hi in boxes:
            for d in range(3):
                h.write("%r %r\n" % (lo[d] * dx, (hi[d] + 1) * dx))
        h.write("Level_0/Cell\n")
    return path, [(lo, hi, a) for (lo, hi), a in zip(boxes, data)], names, offsets
