"""Case runner: every case runs in its own forked process (own process group, so leaked pool
workers die with it) under a generous wall-clock watchdog whose firing is *inconclusive*.
Cases report through a Recorder; the parent merges the recorders."""
import os, sys, json, time, signal, traceback, shutil, errno
from . import common, linecov


class Recorder:
    """What one case observed. Everything here is JSON-serialisable."""

    def __init__(self, case):
        self.case = case
        self.evals = 0
        self.held = 0
        self.violations = []      # {what, mech, witness}
        self.inconclusive = []    # {reason}
        self.nontrivial = set()   # hashes of distinct non-trivial evaluations
        self.obs = {}             # counters
        self.sets = {}            # named sets of small strings (distinct things seen)
        self.samples = []
        self.skipped = 0

    # -- verdicts on single evaluations
    def ok(self, key=None, nontrivial=False):
        self.evals += 1
        self.held += 1
        if nontrivial and key is not None:
            self.nontrivial.add(common.sha(key))

    def violation(self, what, witness=None, mech=None, key=None):
        self.evals += 1
        if len(self.violations) < 40:
            self.violations.append({"what": what, "mech": mech, "witness": witness, "key": key})
        else:
            self.count("violations_not_listed")

    def undecided(self, reason):
        self.evals += 1
        if len(self.inconclusive) < 20:
            self.inconclusive.append({"reason": reason})
        self.count("undecided:" + reason.split(":")[0])

    def skip(self, reason):
        self.skipped += 1
        self.count("skipped:" + reason)

    # -- observations
    def count(self, name, n=1):
        self.obs[name] = self.obs.get(name, 0) + n

    def seen(self, setname, item):
        s = self.sets.setdefault(setname, set())
        if len(s) < 5000:
            s.add(str(item))

    def sample(self, obj):
        if len(self.samples) < 2:
            self.samples.append(obj)

    def dump(self):
        return {"evals": self.evals, "held": self.held, "violations": self.violations,
                "inconclusive": self.inconclusive, "nontrivial": sorted(self.nontrivial),
                "obs": self.obs, "sets": {k: sorted(v) for k, v in self.sets.items()},
                "samples": self.samples, "skipped": self.skipped}


CPU_PLAN = (None, 2, None, 3, None, 5, None, 1)


def _vary_cpus(i, rec):
    """The machine a case runs on: every other case process sees another number of CPUs (1, 2, 3, 5 instead of
    all of them) - its affinity mask is cut down to that many CPUs (what taskset / a batch scheduler does;
    os.sched_getaffinity sees it) and os.cpu_count() (which multiprocessing.cpu_count() calls) reports the same
    number. Pools the tools create without a size, and anything they derive from the CPU count, follow."""
    if os.environ.get("VERIF_CPUS", "vary") != "vary":
        return
    k = CPU_PLAN[i % len(CPU_PLAN)]
    try:
        avail = sorted(os.sched_getaffinity(0))
        if k is not None and len(avail) > k:
            import random
            os.sched_setaffinity(0, set(random.Random(i).sample(avail, k)))
            os.cpu_count = lambda: k
        else:
            k = len(avail)
    except (AttributeError, OSError):
        return
    rec.count("case_processes_with_cpus:%d" % k)


def _vary_warnings(i, rec):
    """The embedding program's warnings filter: every third case process turns the warnings attributed to the
    repository's own modules into errors (`-W error` / pytest's filterwarnings=error, scoped to amr_kitchen so
    that third-party noise such as multiprocessing's fork warning stays out). RuntimeWarning is left alone:
    numpy raises it for invalid operations on NaN / inf data, which are the data's own. Forked pool workers
    inherit the filter. A tool that then fails loudly is judged by the check like any other failure; one that
    swallows the error and returns something else is what this is for."""
    if os.environ.get("VERIF_WARNINGS", "vary") != "vary" or i % 3 != 2:
        return
    import warnings
    for cat in (DeprecationWarning, PendingDeprecationWarning, FutureWarning, UserWarning):
        warnings.filterwarnings("error", category=cat, module=r"amr_kitchen(\.|$)")
    rec.count("case_processes_with_repository_warnings_as_errors")


class _WriteOnly:
    """what a GUI console / logging redirector puts in sys.stdout: print() needs nothing but write()"""
    def __init__(self):
        self.n = 0

    def write(self, text):
        self.n += len(text)
        return len(text)


def _call_in_context(i, fn, case, work, rec):
    """The caller's side of a case: every fifth case body runs in a worker thread instead of the main thread (a
    GUI / notebook / ThreadPoolExecutor caller: signal handlers cannot be installed there, thread-local state
    is fresh), and every seventh with sys.stdout replaced by an object that has write() and nothing else."""
    stdout = sys.stdout
    if os.environ.get("VERIF_STDOUT", "vary") == "vary" and i % 7 == 5:
        sys.stdout = _WriteOnly()
        rec.count("case_bodies_run_with_write_only_stdout")
    try:
        if os.environ.get("VERIF_THREAD", "vary") == "vary" and i % 5 == 3:
            import threading
            rec.count("case_bodies_run_in_a_worker_thread")
            box = {}

            def body():
                try:
                    fn(case, work, rec)
                except BaseException as e:
                    box["exc"] = e
            t = threading.Thread(target=body, name="caller")
            t.start()
            t.join()
            if "exc" in box:
                raise box["exc"]
        else:
            fn(case, work, rec)
    finally:
        sys.stdout = stdout


def _child(i, case, fn, resdir, workroot, quiet, ctx=None):
    ctx = i if ctx is None else ctx      # what the per-process variations (CPUs, warnings, caller context) key on
    try:
        os.setpgid(0, 0)
    except OSError:
        pass
    signal.signal(signal.SIGTERM, signal.SIG_DFL)
    work = os.path.join(workroot, f"c{i}")
    os.makedirs(work, exist_ok=True)
    rec = Recorder(case)
    out = {"i": i, "ctx": ctx}
    linecov.start(f"{os.getppid()}_{i}")
    _vary_cpus(ctx, rec)
    _vary_warnings(ctx, rec)
    def finish():
        _finish(i, out, rec, resdir, work)
    global FINISH
    FINISH = finish      # a monitor thread that decided the case while the main thread is stuck ends the process with it
    try:
        if quiet:
            with common.quiet_fds(os.path.join(work, ".stdio")):
                _call_in_context(ctx, fn, case, work, rec)
        else:
            _call_in_context(ctx, fn, case, work, rec)
    except BaseException:
        out["error"] = traceback.format_exc()[-4000:]
    finish()


FINISH = None


def _finish(i, out, rec, resdir, work):
    out["rec"] = rec.dump()
    linecov.stop()
    try:
        from . import typefuzz
        for k, v in typefuzz.STATS.items():
            rec.obs[k] = rec.obs.get(k, 0) + v
        for tsig, exc in typefuzz.REFUSED.items():
            if tsig in typefuzz.ACCEPTED:
                # the callable takes these argument types for other inputs: what it raised here is not a refusal
                rec.violations.append({"what": f"{tsig[0]} raised {exc.split(':')[0]} for an input it handles when given built-in "
                                               f"types, although it accepts {dict(tsig[1]) or 'positional arguments'} for other inputs",
                                       "mech": "argument-type-inconsistent", "witness": {"types": list(tsig[1]), "positional": tsig[2], "exception": exc},
                                       "key": None})
                rec.evals += 1
        for k, v in common.ARGV_FORMS.items():
            rec.obs["argv_spelling:" + k] = rec.obs.get("argv_spelling:" + k, 0) + v
        out["rec"] = rec.dump()
    except Exception:
        pass
    try:
        tmp = os.path.join(resdir, f"{i}.tmp")
        with open(tmp, "w") as f:
            json.dump(out, f, default=str)
        os.rename(tmp, os.path.join(resdir, f"{i}.json"))
    finally:
        shutil.rmtree(work, ignore_errors=True)
        try:
            sys.stdout.flush(); sys.stderr.flush()
        except Exception:
            pass
        # kill leaked pool workers of this case (same process group) and leave. SIGKILL for the whole group, this
        # process included: with SIGTERM ignored here, the worker-handler threads of leaked pools re-populated their
        # pools between the signal and _exit, and those late workers (born with SIGTERM ignored) outlived the check,
        # holding its stdout pipe open. The result file is complete by now; the parent judges by it.
        try:
            if os.getpgid(0) == os.getpid():      # our own group (setpgid in _child); never the harness's
                os.killpg(os.getpid(), signal.SIGKILL)
        except OSError:
            pass
        os._exit(0)


def run_cases(cases, fn, nproc=None, timeout=180, quiet=True, progress=None, indices=None):
    """Run fn(case, workdir, rec) for every case in its own process. Returns list of dicts
    {i, rec, error?, timeout?} in case order."""
    nproc = nproc or int(os.environ.get("VERIF_NPROC", min(16, os.cpu_count() or 4)))
    root = common.scratch_root()
    resdir = os.path.join(root, f"res_{os.getpid()}_{int(time.time()*1000)%100000}")
    workroot = os.path.join(root, f"work_{os.getpid()}_{int(time.time()*1000)%100000}")
    os.makedirs(resdir); os.makedirs(workroot)
    running = {}
    results = [None] * len(cases)
    nxt = 0
    done = 0
    t_last = time.time()
    while nxt < len(cases) or running:
        while nxt < len(cases) and len(running) < nproc:
            sys.stdout.flush(); sys.stderr.flush()
            pid = os.fork()
            if pid == 0:
                try:        # what a case that meets the watchdog was doing (all threads), for the inconclusive report
                    import faulthandler
                    faulthandler.dump_traceback_later(max(1.0, timeout * 0.95), file=open(os.path.join(resdir, f"{nxt}.stack"), "w"))
                except Exception:
                    pass
                _child(nxt, cases[nxt], fn, resdir, workroot, quiet, ctx=indices[nxt] if indices else nxt)
            running[pid] = (nxt, time.time())
            nxt += 1
        try:
            pid, status = os.waitpid(-1, os.WNOHANG)
        except ChildProcessError:
            pid = 0
            if running:
                # children reaped elsewhere: collect what is there
                for p, (i, _) in list(running.items()):
                    running.pop(p)
                    results[i] = _collect(resdir, i, None)
                    done += 1
        if pid and pid in running:
            i, t0 = running.pop(pid)
            results[i] = _collect(resdir, i, status)
            done += 1
        elif not pid:
            now = time.time()
            for p, (i, t0) in list(running.items()):
                if now - t0 > timeout:
                    for sig in (signal.SIGTERM, signal.SIGKILL):
                        try:
                            os.killpg(p, sig)
                        except OSError:
                            try:
                                os.kill(p, sig)
                            except OSError:
                                pass
                        time.sleep(0.05)
                    try:
                        os.waitpid(p, 0)
                    except OSError:
                        pass
                    running.pop(p)
                    results[i] = {"i": i, "timeout": True, "rec": None}
                    try:
                        with open(os.path.join(resdir, f"{i}.stack")) as f:
                            results[i]["stack"] = f.read()[-3000:]
                    except OSError:
                        pass
                    shutil.rmtree(os.path.join(workroot, f"c{i}"), ignore_errors=True)
                    done += 1
            time.sleep(0.002)
        if progress and time.time() - t_last > 15:
            t_last = time.time()
            progress(done, len(cases))
    shutil.rmtree(resdir, ignore_errors=True)
    shutil.rmtree(workroot, ignore_errors=True)
    return results


def _collect(resdir, i, status):
    p = os.path.join(resdir, f"{i}.json")
    if os.path.exists(p):
        with open(p) as f:
            return json.load(f)
    return {"i": i, "rec": None, "error": f"case process died without a result (status={status})"}
