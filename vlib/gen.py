"""Seeded generator of well-formed AMReX plotfiles (HyperCLaw-V1.1, Cell_H version 1, native
little-endian doubles) together with the in-memory model that is the ground truth of every
oracle. Shares no code with the repository under test. All parameters are JSON-serialisable
so that a case can be replayed from its descriptor alone."""
import os, random, shutil, copy
import numpy as np

FABHDR = "FAB ((8, (64 11 52 0 1 12 0 1023)),(8, (8 7 6 5 4 3 2 1)))"


def fmt_repr(x):
    return repr(float(x))


def fmt_17g(x):
    return "%.17g" % float(x)


def fmt_16e(x):
    """what AMReX itself writes: -1.9433193555115220e-23"""
    return "%.16e" % float(x)


class Box:
    __slots__ = ("lo", "hi")

    def __init__(self, lo, hi):
        self.lo = tuple(int(v) for v in lo)
        self.hi = tuple(int(v) for v in hi)

    @property
    def shape(self):
        return tuple(h - l + 1 for l, h in zip(self.lo, self.hi))

    def __repr__(self):
        return f"Box({self.lo},{self.hi})"

    def key(self):
        return (self.lo, self.hi)


class Model:
    """In-memory plotfile: names, geometry, per-level boxes, per-box arrays (shape + nfields,
    Fortran order) and the on-disk layout (file of each box, write order inside files)."""

    def copy(self):
        m = Model()
        m.__dict__.update(self.__dict__)
        m.layout = copy.deepcopy(self.layout)
        return m

    def phys_box(self, lv, bi):
        b = self.boxes[lv][bi]
        return [[self.geo_low[d] + b.lo[d] * self.dx[lv][d],
                 self.geo_low[d] + (b.hi[d] + 1) * self.dx[lv][d]] for d in range(self.ndims)]

    def nfiles(self, lv):
        return len(set(self.layout[lv]["file_of"]))

    def nonmonotone(self, lv):
        """in-file order differs from box order for some file"""
        lay = self.layout[lv]
        pos = {b: i for i, b in enumerate(lay["write_order"])}
        byfile = {}
        for bi, f in enumerate(lay["file_of"]):
            byfile.setdefault(f, []).append(pos[bi])
        return any(p != sorted(p) for p in byfile.values())


def split_region(rng, lo, hi, bf, maxsz, p_extra=0.35):
    """tile [lo,hi] (inclusive cell indices aligned on bf) with boxes whose extents are
    multiples of bf and <= maxsz by random recursive bisection"""
    nd = len(lo)
    shape = [h - l + 1 for l, h in zip(lo, hi)]
    cand = [d for d in range(nd) if shape[d] > maxsz or (shape[d] > bf and rng.random() < p_extra)]
    if not cand:
        return [Box(lo, hi)]
    d = rng.choice(cand)
    nblk = shape[d] // bf
    cut = rng.randint(1, nblk - 1) * bf
    hi1 = list(hi); hi1[d] = lo[d] + cut - 1
    lo2 = list(lo); lo2[d] = lo[d] + cut
    return (split_region(rng, lo, hi1, bf, maxsz, p_extra) +
            split_region(rng, lo2, hi, bf, maxsz, p_extra))


UNEVEN = [False]


def _segments(rng, total, sizes):
    """ordered random decomposition of `total` into parts from `sizes` (None if impossible);
    with UNEVEN the largest feasible part is preferred (12 -> 6+6 rather than 4+4+4), which
    puts box edges off the multiples of the smallest extent"""
    sizes = sorted(sizes)
    ok = [False] * (total + 1)
    ok[0] = True
    for t in range(1, total + 1):
        ok[t] = any(t >= s and ok[t - s] for s in sizes)
    if not ok[total]:
        return None
    parts, t = [], total
    while t > 0:
        ch = [s for s in sizes if t >= s and ok[t - s]]
        s = max(ch) if UNEVEN[0] and rng.random() < 0.8 else rng.choice(ch)
        parts.append(s); t -= s
    rng.shuffle(parts)
    return parts


def tile_segments(rng, lo, hi, sizes):
    """tensor-product tiling of [lo,hi] with per-direction segments drawn from `sizes`"""
    nd = len(lo)
    cuts = []
    for d in range(nd):
        szd = sizes[d] if isinstance(sizes[0], (list, tuple)) else sizes
        segs = _segments(rng, hi[d] - lo[d] + 1, szd)
        assert segs is not None, (lo, hi, sizes)
        edges = [lo[d]]
        for s in segs:
            edges.append(edges[-1] + s)
        cuts.append(edges)
    boxes = []

    def rec(d, blo, bhi):
        if d == nd:
            boxes.append(Box(blo, bhi)); return
        for a, b in zip(cuts[d][:-1], cuts[d][1:]):
            rec(d + 1, blo + [a], bhi + [b - 1])
    rec(0, [], [])
    return boxes


SPECIALS = [np.nan, np.inf, -np.inf, 5e-324, -0.0, 2.2250738585072014e-308 / 4,
            np.frombuffer(np.uint64(0x7ff8dead0000beef).tobytes(), "<f8")[0],   # NaN payload
            np.frombuffer(np.uint64(0xfff8000000000001).tobytes(), "<f8")[0]]   # negative quiet NaN
# (no signalling NaN: numpy's strided fmin/fmax reductions return NaN when they meet one, so
#  np.nanmin of a box holding an sNaN is NaN although finite values exist - a numpy quirk that
#  would be blamed on taste's binary_data comparison)


def gen_model(seed, ndims=3, nlevels=None, nfields=None, base=None, bf=4, maxsz=None,
              origin=None, aniso=True, names=None, payload="random", nfiles=None,
              shuffle=True, full_refine=False, sizes=None, base_blocks=(2, 4), time=None,
              maxfiles=4, refine_frac=None, data_seed=None, uneven=False, free_regions=False, region_unit=None,
              length_scale=None, file_id_base=0):
    """payload: random | special | affine | tagged | positive | ramp
    sizes: when given, 'segments' tiling with box extents from that list (e.g. [16,24])"""
    rng = random.Random(seed)
    nprng = np.random.default_rng(seed if data_seed is None else data_seed)
    UNEVEN[0] = bool(uneven)
    m = Model()
    m.seed = seed
    m.ndims = ndims
    m.nlevels = nlevels if nlevels is not None else rng.randint(1, 3)
    if names is not None:
        m.names = list(names)
        m.nfields = len(m.names)
    else:
        m.nfields = nfields if nfields is not None else rng.randint(1, 5)
        m.names = [f"f{i}" for i in range(m.nfields)]
    if sizes:
        if base is None:
            base = [sum(rng.choice(sizes[d] if isinstance(sizes[0], (list, tuple)) else sizes)
                        for _ in range(rng.randint(1, 2))) for d in range(ndims)]
    elif base is None:
        base = [bf * rng.randint(*base_blocks) for _ in range(ndims)]
    m.base = list(base)
    if maxsz is None:
        maxsz = bf * rng.randint(1, 3)
    if origin is None:
        origin = [rng.choice([0.0, -1.5, 0.25, 3.0]) for _ in range(ndims)]
    m.geo_low = [float(o) for o in origin]
    if aniso is True:
        dx0 = [rng.choice([0.5, 0.125, 0.1, 0.3]) for _ in range(ndims)]
    elif aniso:
        dx0 = [float(v) for v in aniso]
    else:
        dx0 = [0.125] * ndims
    if length_scale:        # the same geometry in other units (micrometre cells: 1e-6, nanometre cells: 1e-9)
        m.geo_low = [v * length_scale for v in m.geo_low]
        dx0 = [v * length_scale for v in dx0]
    m.dx = [[dx0[d] / 2 ** lv for d in range(ndims)] for lv in range(m.nlevels)]
    m.geo_high = [m.geo_low[d] + dx0[d] * base[d] for d in range(ndims)]
    m.time = float(time) if time is not None else rng.choice(
        [0.0, 1.25e-3, -2.5, 7.0, 0.49947225144556617, 1.3924182125972017e-08])
    m.steps = [rng.randint(0, 99999)] * m.nlevels
    m.grid_sizes = [[base[d] * 2 ** lv for d in range(ndims)] for lv in range(m.nlevels)]
    m.boxes = []
    dom_lo, dom_hi = [0] * ndims, [b - 1 for b in base]
    if sizes:
        m.boxes.append(tile_segments(rng, dom_lo, dom_hi, sizes))
    else:
        m.boxes.append(split_region(rng, dom_lo, dom_hi, bf, maxsz))
    for lv in range(1, m.nlevels):
        prev = m.boxes[lv - 1]
        fine = []
        if sizes and free_regions:
            # refined region = a rectangle placed at an arbitrary multiple of the blocking factor
            # (gcd of the sizes) inside one coarse box (level 1: inside the domain), tiled with
            # `sizes`: box edges are then NOT multiples of the smallest box extent (what real
            # AMReX grids with blocking factor 8 and 16/24/32-cell boxes look like)
            flat = sizes if not isinstance(sizes[0], (list, tuple)) else sizes[0]
            u = int(region_unit) if region_unit else int(np.gcd.reduce(flat))
            if lv == 1:
                host_lo, host_hi = [0] * ndims, [2 * g - 1 for g in m.grid_sizes[0]]
            else:
                hb = rng.choice(prev)
                host_lo, host_hi = [2 * v for v in hb.lo], [2 * v + 1 for v in hb.hi]
            lo, hi = [], []
            for d in range(ndims):
                room = host_hi[d] - host_lo[d] + 1
                feas = [t for t in range(min(flat), room + 1, u) if _segments(rng, t, flat) is not None
                        and room - t >= 0]
                e = rng.choice(feas)
                offs = list(range(0, room - e + 1, u))
                odd = [o for o in offs if (host_lo[d] + o) % min(flat)] or offs
                o = rng.choice(odd)
                lo.append(host_lo[d] + o); hi.append(host_lo[d] + o + e - 1)
            fine += tile_segments(rng, lo, hi, sizes)
        elif sizes:
            # refine a random non-empty subset of the coarse boxes, retile each with `sizes`
            k = len(prev) if full_refine else rng.randint(1, max(1, (len(prev) + 1) // 2))
            for b in rng.sample(prev, k):
                lo = [2 * v for v in b.lo]; hi = [2 * v + 1 for v in b.hi]
                fine += tile_segments(rng, lo, hi, sizes)
        else:
            cb = bf
            gs = m.grid_sizes[lv - 1]
            nblk = [g // cb for g in gs]
            occ_prev = np.zeros(nblk, dtype=bool)
            for b in prev:
                sl = tuple(slice(b.lo[d] // cb, b.hi[d] // cb + 1) for d in range(ndims))
                occ_prev[sl] = True
            occ = np.zeros(nblk, dtype=bool)
            for _ in range(rng.randint(1, 2)):
                lo = [rng.randint(0, nblk[d] - 1) for d in range(ndims)]
                hi = [rng.randint(lo[d], min(nblk[d] - 1, lo[d] + 2)) for d in range(ndims)]
                occ[tuple(slice(lo[d], hi[d] + 1) for d in range(ndims))] = True
            if full_refine:
                occ[...] = True
            occ &= occ_prev
            if not occ.any():
                occ[tuple(np.argwhere(occ_prev)[rng.randrange(int(occ_prev.sum()))])] = True
            done = np.zeros_like(occ)
            for idx in np.argwhere(occ):
                idx = tuple(int(v) for v in idx)
                if done[idx]:
                    continue
                d = rng.randrange(ndims)
                end = list(idx)
                while True:
                    nxt = list(end); nxt[d] += 1
                    if (nxt[d] < nblk[d] and occ[tuple(nxt)] and not done[tuple(nxt)]
                            and rng.random() < 0.6):
                        end = nxt
                    else:
                        break
                cur = list(idx)
                while True:
                    done[tuple(cur)] = True
                    if cur[d] == end[d]:
                        break
                    cur[d] += 1
                lo = [idx[k] * cb * 2 for k in range(ndims)]
                hi = [(end[k] + 1) * cb * 2 - 1 for k in range(ndims)]
                fine += split_region(rng, lo, hi, bf, max(maxsz, bf) * 2)
        m.boxes.append(fine)
    for lv in range(m.nlevels):
        rng.shuffle(m.boxes[lv])
    m.payload = payload
    m.coef = [(rng.choice([-2.0, 0.5, 1.0, 3.25]), rng.choice([-1.5, 0.75, 2.0, 4.0]))
              for _ in range(3)]
    m.data = []
    for lv in range(m.nlevels):
        m.data.append([np.asfortranarray(_payload(m, lv, bi, b, payload, nprng), dtype=np.float64)
                       for bi, b in enumerate(m.boxes[lv])])
    m.layout = []
    for lv in range(m.nlevels):
        m.layout.append(_layout(rng, len(m.boxes[lv]), nfiles, shuffle, maxfiles, file_id_base))
    return m


def _layout(rng, nb, nfiles=None, shuffle=True, maxfiles=4, id_base=0):
    nf = nfiles if nfiles is not None else rng.randint(1, max(1, min(maxfiles, nb)))
    nf = max(1, min(nf, nb))
    assign = [rng.randrange(nf) for _ in range(nb)]
    if id_base == "mixed":
        # file numbers of five AND six digits at one level (Cell_D_99999 beside Cell_D_100000: what AMReX writes
        # from file 100000 on) - as strings they do not sort like the numbers they hold
        ids = [99985 + v for v in rng.sample(range(0, max(40, 2 * nf)), nf)]
        if nf >= 2 and len({len(str(v)) for v in ids}) == 1:
            ids[0], ids[1] = 99999, 100000
    elif id_base == "dense":
        # files numbered 0 .. nf-1 at every level (what AMReX writes): Cell_D_00000 starts at offset 0 on each level
        ids = list(range(nf))
    else:
        ids = [id_base + v for v in rng.sample(range(0, max(40, 2 * nf)), nf)]      # id_base 100000: six-digit file numbers
    order = list(range(nb))
    if shuffle:
        rng.shuffle(order)
    return {"file_of": [ids[a] for a in assign], "write_order": order}


def relayout(m, seed, mode="other"):
    """copy of m with another binary layout. mode: same | order (same files, other in-file
    order) | other (other files) | single | monotone (box order inside files)"""
    rng = random.Random(seed * 7919 + 13)
    c = m.copy()
    for lv in range(m.nlevels):
        nb = len(m.boxes[lv])
        lay = c.layout[lv]
        if mode == "same":
            pass
        elif mode == "order":
            o = list(lay["write_order"])
            if nb > 1:
                for _ in range(8):
                    rng.shuffle(o)
                    if o != lay["write_order"]:
                        break
            lay["write_order"] = o
        elif mode == "other":
            c.layout[lv] = _layout(rng, nb, None, True)
        elif mode == "single":
            c.layout[lv] = _layout(rng, nb, 1, True)
        elif mode == "monotone":
            lay["write_order"] = list(range(nb))
        else:
            raise ValueError(mode)
    return c


def drop_finest(m):
    """copy of m without its finest level"""
    c = m.copy()
    c.nlevels = m.nlevels - 1
    for a in ("dx", "grid_sizes", "boxes", "data", "layout", "steps"):
        setattr(c, a, list(getattr(m, a))[:c.nlevels])
    return c


def drop_last_box(m, lv):
    """copy of m whose level lv lacks its last box (a mesh that is a strict prefix of m's)"""
    c = m.copy()
    c.boxes = [list(b) for b in m.boxes]
    c.data = [list(d) for d in m.data]
    c.boxes[lv] = c.boxes[lv][:-1]
    c.data[lv] = c.data[lv][:-1]
    nb = len(c.boxes[lv])
    c.layout[lv] = {"file_of": m.layout[lv]["file_of"][:nb],
                    "write_order": [i for i in m.layout[lv]["write_order"] if i < nb]}
    return c


def permute_boxes(m, seed):
    """copy of m with another box order at every level (same boxes, same data)"""
    rng = random.Random(seed)
    c = m.copy()
    c.boxes, c.data = [], []
    for lv in range(m.nlevels):
        p = list(range(len(m.boxes[lv])))
        rng.shuffle(p)
        c.boxes.append([m.boxes[lv][i] for i in p])
        c.data.append([m.data[lv][i] for i in p])
        c.layout[lv] = {"file_of": [m.layout[lv]["file_of"][i] for i in p],
                        "write_order": [p.index(i) for i in m.layout[lv]["write_order"]]}
    return c


def cell_centres(m, lv, b, d):
    return m.geo_low[d] + (np.arange(b.lo[d], b.hi[d] + 1) + 0.5) * m.dx[lv][d]


def _payload(m, lv, bi, b, payload, nprng):
    shp = b.shape + (m.nfields,)
    nd = m.ndims
    if payload in ("random", "special"):
        arr = nprng.standard_normal(shp) * 10.0 ** int(nprng.integers(-3, 4))
        if payload == "special" and nprng.random() < 0.6:
            flat = arr.reshape(-1)
            k = min(flat.size, len(SPECIALS))
            pos = nprng.choice(flat.size, size=k, replace=False)
            keep = arr.copy()
            for p, v in zip(pos, SPECIALS):
                flat[p] = v
            for f in range(shp[-1]):      # no all-NaN box component (no canonical min/max row)
                if np.isnan(arr[..., f]).all():
                    arr[..., f] = keep[..., f]
        if payload == "special":
            # value patterns of whole box components that a data-dependent shortcut ("empty", "uniform", "unset")
            # mistakes for something else; every one is ordinary, valid field data
            for f in range(shp[-1]):
                if nprng.random() >= 0.3:
                    continue
                comp = np.array(arr[..., f], order="F")
                n = comp.size
                kind = int(nprng.integers(0, 7))
                if kind == 0:        # zeros of both signs (an antisymmetric component that vanishes, -1 * 0.0)
                    comp[...] = 0.0
                    comp.reshape(-1, order="F")[nprng.random(n) < 0.5] = -0.0
                    if n > 1:
                        comp.reshape(-1, order="F")[0] = -0.0
                elif kind == 1:      # one value everywhere except for a few NaN cells: min == max in the header table
                    comp[...] = [298.0, -1.5, 0.0][int(nprng.integers(0, 3))]
                    if n > 1:
                        comp.reshape(-1, order="F")[nprng.choice(n, size=max(1, n // 9), replace=False)] = np.nan
                        if np.isnan(comp).all():
                            comp.reshape(-1, order="F")[0] = 298.0
                elif kind == 2:      # exactly uniform
                    comp[...] = [0.0, 1.0, 1.0e30, -7.25][int(nprng.integers(0, 4))]
                elif kind == 3:      # NaN in the very last stored cell of the component (and the first)
                    if n > 2:
                        comp.reshape(-1, order="F")[-1] = np.nan
                        comp.reshape(-1, order="F")[0] = np.nan
                elif kind == 4:      # values that cancel exactly: the sum is 0.0, nothing is zero
                    v = np.where(np.arange(n) % 2 == 0, 2.0, -2.0)
                    if n % 2:
                        v[-1] = 0.5
                        if n > 2:
                            v[-2] = -2.5
                    comp.reshape(-1, order="F")[:] = v
                elif kind == 5:      # a trace quantity: all values within 1e-8 of one another, none equal
                    comp[...] = (1.0 + nprng.random(comp.shape) * 8.0) * 1e-11
                else:                # sentinel magnitudes real data can hold
                    flatc = comp.reshape(-1, order="F")
                    for v in (-1.0, 1.0e30, -1.0e30, 1.7976931348623157e308, 3.5e38, -3.5e38, 0.0):
                        flatc[int(nprng.integers(0, n))] = v
                if np.isnan(comp).all():      # no all-NaN box component (no canonical min/max row), whatever was there before
                    comp = np.array(nprng.standard_normal(comp.shape), order="F")
                arr[..., f] = comp
        return arr
    if payload == "extreme":
        # magnitudes at both ends of the float64 range, so that the extrema written to the level
        # headers are negative numbers with three-digit exponents, denormals, huge values
        arr = np.empty(shp)
        for f in range(shp[-1]):
            mode = int(nprng.integers(0, 4))
            sub = b.shape
            if mode == 0:
                a = np.sign(nprng.random(sub) - 0.5) * 10.0 ** nprng.uniform(100, 300, sub)
            elif mode == 1:
                a = nprng.random(sub) + 0.5
                k = nprng.random(sub) < 0.2
                a[k] = -(10.0 ** -nprng.uniform(100, 320, int(k.sum())))
            elif mode == 2:
                a = -(nprng.random(sub) + 0.5)
                k = nprng.random(sub) < 0.2
                a[k] = 10.0 ** -nprng.uniform(100, 320, int(k.sum()))
            else:
                a = np.sign(nprng.random(sub) - 0.5) * 5e-324 * nprng.integers(1, 1000, sub)
            arr[..., f] = a
        return arr
    if payload == "nearconst":
        # values that vary only in their last digits inside a box (ambient temperature, trace species):
        # anything that decides "uniform" with a tolerance instead of equality flattens them
        base = nprng.choice([298.0, 1e-12, -3.5, 1.0e5], size=shp[-1])
        arr = base * (1.0 + 1e-7 * (nprng.random(shp) - 0.5))
        return arr
    if payload == "trace":
        # trace quantities: every value of a field within 1e-8 (absolute) of every other one, no two equal - an absolute
        # tolerance of 1e-8 (np.isclose / np.allclose defaults) calls such a field uniform, or zero
        arr = np.empty(shp)
        for f in range(shp[-1]):
            arr[..., f] = (1.0 + 8.0 * nprng.random(b.shape)) * 10.0 ** (-11 - (f % 3) * 4) * (-1.0 if f % 4 == 3 else 1.0)
        return arr
    if payload == "positive":
        arr = (nprng.random(shp) + 0.25) * 10.0 ** int(nprng.integers(-3, 4))     # several decades across boxes
        for f, n in enumerate(m.names):
            if n == "volFrac":
                vf = np.round(nprng.random(b.shape) * 4) / 4
                # sliver cut cells: a strictly positive fraction far below any "is it zero" tolerance; now and then a
                # whole box of them
                sl = nprng.random(b.shape) < 0.12
                vf[sl] = 10.0 ** -nprng.uniform(8.0, 14.0, int(sl.sum()))
                if nprng.random() < 0.15:
                    vf[...] = 2.0 ** -30
                arr[..., f] = vf
        return arr
    if payload == "thermo":
        # thermochemical state: temp, Y(sp) normalised, a few all-zero cells (covered EB cells)
        arr = nprng.random(shp) + 0.1
        ys = [f for f, n in enumerate(m.names) if n.startswith("Y(")]
        zero = nprng.random(b.shape) < 0.04
        if ys:
            y = nprng.random(b.shape + (len(ys),)) ** 3
            y /= y.sum(axis=-1, keepdims=True)
            y[zero] = 0.0
            arr[..., ys] = y
        for f, n in enumerate(m.names):
            if n == "temp":
                t = 300.0 + 2000.0 * nprng.random(b.shape)
                t[zero] = 0.0
                arr[..., f] = t
        return arr
    if payload == "thermo_trace":
        # a preheated, almost uniform mixture: temperature and the major species agree to 1e-7 (relative) from cell to
        # cell, the radicals and other trace species (1e-14 .. 5e-9) vary by orders of magnitude - a box that passes
        # for uniform under np.allclose's default tolerances although its reaction rates differ cell by cell
        arr = nprng.random(shp) + 0.1
        ys = [f for f, n in enumerate(m.names) if n.startswith("Y(")]
        major = {"Y(H2)": 0.028, "Y(O2)": 0.226, "Y(N2)": 0.745}
        for f in ys:
            n = m.names[f]
            if n in major:
                arr[..., f] = major[n] * (1.0 + 1e-7 * (nprng.random(b.shape) - 0.5))
            else:
                arr[..., f] = 10.0 ** nprng.uniform(-14.0, -8.3, b.shape)
        for f, n in enumerate(m.names):
            if n == "temp":
                arr[..., f] = 1400.0 * (1.0 + 1e-7 * (nprng.random(b.shape) - 0.5))
        return arr
    if payload == "affine":
        # names decide: ax/ay/az affine in one coordinate; tag = level/box/cell tag; else random
        arr = nprng.standard_normal(shp)
        grids = np.meshgrid(*[cell_centres(m, lv, b, d) for d in range(nd)], indexing="ij")
        idx = np.meshgrid(*[np.arange(b.lo[d], b.hi[d] + 1) for d in range(nd)], indexing="ij")
        for f, n in enumerate(m.names):
            if n in ("ax", "ay", "az"):
                d = "xyz".index(n[1])
                if d < nd:
                    a, c = m.coef[d]
                    arr[..., f] = a + c * grids[d]
            elif n.startswith("tag"):
                # constant along direction d: a tag of (level, box, in-plane cell)
                d = "xyz".index(n[3])
                t = 1000.0 * (lv + 1) + 17.0 * bi
                for k in range(nd):
                    if k != d:
                        t = t + (0.37 + 0.11 * k) * idx[k]
                arr[..., f] = t
            elif n in ("cix", "ciy", "ciz"):
                # constant along direction d over the whole level (no box term), with +inf / -inf in some
                # in-plane cells: interpolating between two equal samples must give that sample
                d = "xyz".index(n[2])
                t = 50.0 * (lv + 1)
                h = 5 * lv
                for k in range(nd):
                    if k != d:
                        t = t + (0.37 + 0.11 * k) * idx[k]
                        h = h + (7 + 6 * k) * idx[k]
                t = np.where(h % 11 == 0, np.inf, np.where(h % 11 == 1, -np.inf, t))
                arr[..., f] = t
            elif n == "trc":
                # a trace quantity that is affine in all coordinates: values of 1e-10, never two planes equal
                arr[..., f] = 1e-10 * (2.0 + sum((0.75 + 0.5 * d) * (grids[d] - m.geo_low[d]) / (m.geo_high[d] - m.geo_low[d]) for d in range(nd)))
            elif n == "near":
                arr[..., f] = 298.0 * (1.0 + 1e-7 * (nprng.random(b.shape) - 0.5))
            elif n == "lin":
                arr[..., f] = sum(m.coef[d][1] * grids[d] for d in range(nd)) + m.coef[0][0]
        return arr
    raise ValueError(payload)


def write_plotfile(m, path, ref_ratio_extra=0, trailing_blank=True, close_blank=False,
                   floatfmt="repr", levels=None, index_shift=0, path_blank=False, final_newline=True,
                   level_prefix="Level_"):
    """Write model m at `path`. Records m.offsets / m.files (per level, per box)."""
    # "6g": what a C++ stream at its default precision writes (cell sizes such as 0.166667 / 0.0833333)
    ff = {"repr": fmt_repr, "17g": fmt_17g, "16e": fmt_16e, "6g": lambda x: "%g" % float(x)}[floatfmt]
    # index space that does not start at 0 (level-0 shift s, level lv shift s * 2**lv). NOT used by any
    # check: the repository derives grid sizes as "domain hi + 1", i.e. it assumes a zero-based domain
    # throughout, so such plotfiles are outside the well-formed inputs the properties quantify over
    # (kept for experiments; see DESIGN section 11, seeded/C15_e)
    m.index_shift = int(index_shift)

    def sh(v, lv):
        return [x + m.index_shift * 2 ** lv for x in v]
    if os.path.exists(path):
        shutil.rmtree(path)
    os.makedirs(path)
    nl, nd = m.nlevels, m.ndims
    tb = " " if trailing_blank else ""
    zero = ",".join(["0"] * nd)
    m.offsets, m.files = [], []
    for lv in range(nl):
        # AMReX lets the writer choose the prefix of the level directories (WriteMultiLevelPlotfile(..., levelPrefix));
        # the Header's data-path lines say where each level lives
        ldir = os.path.join(path, f"{level_prefix}{lv}")
        os.makedirs(ldir)
        lay = m.layout[lv]
        nb = len(m.boxes[lv])
        offsets = [None] * nb
        fnames = [f"Cell_D_{lay['file_of'][i]:05d}" for i in range(nb)]
        handles = {}
        for bi in lay["write_order"]:
            fn = fnames[bi]
            if fn not in handles:
                handles[fn] = open(os.path.join(ldir, fn), "wb")
            fh = handles[fn]
            offsets[bi] = fh.tell()
            b = m.boxes[lv][bi]
            lo = ",".join(map(str, sh(b.lo, lv))); hi = ",".join(map(str, sh(b.hi, lv)))
            fh.write(f"{FABHDR}(({lo}) ({hi}) ({zero})) {m.nfields}\n".encode("ascii"))
            fh.write(m.data[lv][bi].tobytes(order="F"))
        for fh in handles.values():
            fh.close()
        m.offsets.append(offsets); m.files.append(fnames)
        with open(os.path.join(ldir, "Cell_H"), "w") as ch:
            ch.write("1\n1\n%d\n0\n" % m.nfields)
            ch.write(f"({nb} 0\n")
            for b in m.boxes[lv]:
                lo = ",".join(map(str, sh(b.lo, lv))); hi = ",".join(map(str, sh(b.hi, lv)))
                ch.write(f"(({lo}) ({hi}) ({zero}))\n")
            ch.write(") \n" if close_blank else ")\n")
            ch.write(f"{nb}\n")
            for bi in range(nb):
                ch.write(f"FabOnDisk: {fnames[bi]} {offsets[bi]}\n")
            ch.write("\n")
            ch.write(f"{nb},{m.nfields}\n")
            for bi in range(nb):
                ch.write(",".join(f"{v:.16e}" for v in box_min(m.data[lv][bi])) + ",\n")
            ch.write("\n")
            ch.write(f"{nb},{m.nfields}\n")
            for bi in range(nb):
                ch.write(",".join(f"{v:.16e}" for v in box_max(m.data[lv][bi])) + ",\n")
    with open(os.path.join(path, "Header"), "w") as h:
        h.write("HyperCLaw-V1.1\n")
        h.write(f"{m.nfields}\n")
        for n in m.names:
            h.write(n + "\n")
        h.write(f"{nd}\n")
        h.write(ff(m.time) + "\n")
        h.write(f"{nl - 1}\n")
        h.write(" ".join(ff(v) for v in m.geo_low) + tb + "\n")
        h.write(" ".join(ff(v) for v in m.geo_high) + tb + "\n")
        nrr = nl - 1 + ref_ratio_extra
        rr = [str(v) for v in getattr(m, "ratios", [])] or ["2"] * (nl - 1)
        rr = (rr + ["2"] * nrr)[:nrr]
        h.write(" ".join(rr) + (tb if nrr else "") + "\n")
        doms = [f"(({','.join(str(x) for x in sh([0] * nd, lv))}) ({','.join(str(x) for x in sh([g - 1 for g in m.grid_sizes[lv]], lv))}) ({zero}))"
                for lv in range(nl)]
        h.write(" ".join(doms) + tb + "\n")
        h.write(" ".join(str(s) for s in m.steps) + tb + "\n")
        for lv in range(nl):
            h.write(" ".join(ff(v) for v in m.dx[lv]) + tb + "\n")
        h.write("0\n0\n")
        for lv in range(nl):
            h.write(f"{lv} {len(m.boxes[lv])} {ff(m.time)}\n")
            h.write(f"{m.steps[lv]}\n")
            for bi in range(len(m.boxes[lv])):
                for lo, hi in m.phys_box(lv, bi):
                    h.write(f"{ff(lo)} {ff(hi)}\n")
            # white space at the end of the data-path lines (AMReX reads them with `is >> string`, which skips
            # it): a trailing blank; no line feed after the very last line of the file
            last = lv == nl - 1
            h.write(f"{level_prefix}{lv}/Cell" + (" " if path_blank else "") + ("" if last and not final_newline else "\n"))
    m.path = path
    m.level_dirs = [f"{level_prefix}{lv}" for lv in range(nl)]
    return m


def box_min(arr):
    """per-component minimum, NaN-ignoring (AMReX's own reduction over NaN data is order
    dependent, so there is no canonical row; all-NaN components give NaN)"""
    nf = arr.shape[-1]
    out = []
    with np.errstate(all="ignore"):
        for f in range(nf):
            a = arr[..., f]
            out.append(np.nan if np.isnan(a).all() else np.nanmin(a))
    return out


def box_max(arr):
    nf = arr.shape[-1]
    out = []
    with np.errstate(all="ignore"):
        for f in range(nf):
            a = arr[..., f]
            out.append(np.nan if np.isnan(a).all() else np.nanmax(a))
    return out


def describe(m):
    """small JSON description for evidence samples"""
    return {"seed": m.seed, "ndims": m.ndims, "nlevels": m.nlevels, "fields": m.names[:6],
            "base": m.base, "geo_low": m.geo_low, "dx0": m.dx[0],
            "boxes_per_level": [len(b) for b in m.boxes],
            "files_per_level": [m.nfiles(lv) for lv in range(m.nlevels)],
            "nonmonotone": [m.nonmonotone(lv) for lv in range(m.nlevels)],
            "box_shapes_lv0": sorted({b.shape for b in m.boxes[0]})[:4]}


# ----------------------------------------------------------------------------------------
# pure reference operations on models (written from the property statements)

def level_map(m, limit=None):
    """finest level <= limit covering each cell of the limit-level grid, and covering(field)"""
    L = m.nlevels - 1 if limit is None else limit
    gs = m.grid_sizes[L]
    lmap = -np.ones(gs, dtype=int)
    for lv in range(L + 1):
        r = 2 ** (L - lv)
        for b in m.boxes[lv]:
            sl = tuple(slice(b.lo[d] * r, (b.hi[d] + 1) * r) for d in range(m.ndims))
            lmap[sl] = lv
    return lmap


def covering(m, fidx, limit=None):
    """covering grid of component fidx at level `limit`: finer overwrites coarser, coarse
    cells replicated unchanged"""
    L = m.nlevels - 1 if limit is None else limit
    out = np.full(m.grid_sizes[L], np.nan)
    for lv in range(L + 1):
        r = 2 ** (L - lv)
        for bi, b in enumerate(m.boxes[lv]):
            a = m.data[lv][bi][..., fidx]
            for d in range(m.ndims):
                a = np.repeat(a, r, axis=d)
            sl = tuple(slice(b.lo[d] * r, (b.hi[d] + 1) * r) for d in range(m.ndims))
            out[sl] = a
    return out


def uncovered_mask(m, lv, bi, limit):
    """True for cells of box (lv,bi) not covered by a level lv+1 box (lv<limit)"""
    b = m.boxes[lv][bi]
    mask = np.ones(b.shape, dtype=bool)
    if lv >= limit:
        return mask
    r = getattr(m, "ratios", None)
    r = r[lv] if r else 2
    for fb in m.boxes[lv + 1]:
        lo = [max(b.lo[d], fb.lo[d] // r) for d in range(m.ndims)]
        hi = [min(b.hi[d], fb.hi[d] // r) for d in range(m.ndims)]
        if all(l <= h for l, h in zip(lo, hi)):
            sl = tuple(slice(lo[d] - b.lo[d], hi[d] - b.lo[d] + 1) for d in range(m.ndims))
            mask[sl] = False
    return mask


# field names that are unusual but valid (one per Header line): glob / regex metacharacters next to
# the plain name they could be confused with, blanks, non-ASCII (UTF-8) text
ODD_PLAIN = [("vel[0]", "vel0"), ("vel[1]", "vel1"), ("Y(OH*)", "Y(OH)"), ("a?b", "aXb"), ("x*", "xy"),
             ("tracer[12]", "tracer1"), ("p.q", "pZq"), ("c+d", "ccd"), ("u|v", "u"), ("{k}", "k")]
ODD_BLANK = ["x velocity", "heat release", "mass frac OH", "two  blanks"]
ODD_UTF8 = ["\u03c1u", "Y(O\u2082)", "temp\u00e9rature", "\u03c9_z", "\u0394p"]


def odd_names(rng, n, blanks=False, nonascii=False):
    """n distinct unusual field names; metacharacter names come with their plain look-alike"""
    pool = []
    pairs = list(ODD_PLAIN); rng.shuffle(pairs)
    for a, b in pairs:
        pool += [a, b]
    extra = (list(ODD_BLANK) if blanks else []) + (list(ODD_UTF8) if nonascii else [])
    rng.shuffle(extra)
    out = []
    while len(out) < n:
        src = extra if (extra and len(out) % 3 == 1) else pool
        if not src:
            src = pool or extra
        if not src:
            out.append(f"g{len(out)}"); continue
        c = src.pop(0)
        if c not in out:
            out.append(c)
    rng.shuffle(out)
    return out


# field names a careless lookup confuses: spellings that differ only in letter case, names that are the beginning /
# the end / a middle part of another name, names that differ only in surrounding or inner punctuation
CONFUSABLE = [["temp", "Temp", "TEMP", "temperature", "tem", "x_temp", "temp_x", "Temperature"],
              ["rho", "Rho", "rhoh", "RhoH", "rho_E", "rhoe", "rh", "RHO"],
              ["Y(OH)", "Y(oh)", "Y(O)", "Y(H)", "Y(HO2)", "Y(H2O)", "y(OH)", "Y(OH)2"],
              ["vel", "velx", "VelX", "x_vel", "vel_x", "velocity", "Vel", "xvel"]]


def confusable_names(rng, n):
    """n distinct names from one family of look-alikes (plain g<k> names beyond the family's size), shuffled - so the
    spelling that sorts / folds / matches first is not the first field"""
    fam = list(CONFUSABLE[rng.randrange(len(CONFUSABLE))])
    rng.shuffle(fam)
    out = fam[:n]
    while len(out) < n:
        out.append(f"g{len(out)}")
    rng.shuffle(out)
    return out


def poison_covered(m, seed=0, frac=0.6):
    """Overwrite coarse cells lying under the next finer level with NaN / +inf / -inf (what a solver
    that does not average down may leave there). Cells no finer level covers are untouched and at
    least one cell of every box stays as it was. Returns the number of cells overwritten."""
    rng = np.random.default_rng(seed)
    n = 0
    for lv in range(m.nlevels - 1):
        for bi in range(len(m.boxes[lv])):
            cov = ~uncovered_mask(m, lv, bi, lv + 1)
            if not cov.any():
                continue
            pick = cov & (rng.random(cov.shape) < frac)
            if pick.all():
                pick[tuple(0 for _ in pick.shape)] = False
            k = int(pick.sum())
            if not k:
                continue
            a = m.data[lv][bi] = np.array(m.data[lv][bi], dtype=np.float64, order="F", copy=True)
            vals = rng.choice(np.array([np.nan, np.inf, -np.inf]), size=(k, a.shape[-1]))
            a[pick] = vals
            n += k
    return n


TIES = [(2.665, -1.145), (1.295e-05, -0.2005), (1.055, -1.165e-05), (0.02665, -2.675), (1.005, -1.015)]


def tie_extrema(m, seed=0):
    """Give the first fields extrema that sit on a decimal tie at the third significant digit (2.665,
    -1.145, 1.295e-05 ... - four-digit decimals ending in 5 that binary floating point cannot hold exactly):
    every value of the field is drawn between the two, the maximum and the minimum are planted in the
    finest level (so the all-level and the finest-level extrema are the same)"""
    rng = np.random.default_rng(seed)
    fin = m.nlevels - 1
    for f in range(min(m.nfields, len(TIES))):
        hi, lo = TIES[f]
        for lv in range(m.nlevels):
            for bi in range(len(m.data[lv])):
                a = m.data[lv][bi] = np.array(m.data[lv][bi], dtype=np.float64, order="F", copy=True)
                a[..., f] = lo * 0.5 + (hi * 0.5 - lo * 0.5) * rng.random(a.shape[:-1])
        a = m.data[fin][0]
        flat = a[..., f].reshape(-1, order="F")
        idx = np.unravel_index(0, a.shape[:-1], order="F")
        a[idx + (f,)] = hi
        if flat.size > 1:
            idx = np.unravel_index(flat.size - 1, a.shape[:-1], order="F")
            a[idx + (f,)] = lo
        else:
            b = m.data[fin][-1] if len(m.data[fin]) > 1 else None
            if b is not None:
                b[(0,) * (b.ndim - 1) + (f,)] = lo
    return m


def zero_fine(m, seed=0):
    """Make every second box of the levels above 0 hold only 0.0 (or only -0.0) in every second field,
    over coarse data that is not zero (a tracer reset on the fine level, coarse levels not averaged
    down): the finest covering data there ARE the zeros"""
    rng = np.random.default_rng(seed)
    n = 0
    for lv in range(1, m.nlevels):
        for bi in range(0, len(m.data[lv]), 2):
            a = m.data[lv][bi] = np.array(m.data[lv][bi], dtype=np.float64, order="F", copy=True)
            for f in range(0, a.shape[-1], 2):
                a[..., f] = -0.0 if rng.random() < 0.5 else 0.0
                n += 1
    return n


def uniform_boxes(m, seed=0, fraction="volFrac"):
    """Make every third box (at every level) exactly uniform in every field but the last: one value per field and
    box (an initial state, the inside of a solid body), with the volume fraction - where there is such a field -
    uniformly 0.0, 0.5 or 1.0 in that box. The per-box extrema of such a box coincide."""
    rng = np.random.default_rng(seed + 5)
    n = 0
    for lv in range(m.nlevels):
        for bi in range(lv % 3, len(m.data[lv]), 3):
            a = m.data[lv][bi] = np.array(m.data[lv][bi], dtype=np.float64, order="F", copy=True)
            for f, name in enumerate(m.names[:-1] if len(m.names) > 1 else m.names):
                a[..., f] = [0.0, 0.5, 1.0][int(rng.integers(3))] if name == fraction else float(np.round(rng.uniform(0.5, 9.5), 3))
            n += 1
    return n


def deepen(m, nlevels, seed=0):
    """Extend a single-level model to `nlevels` levels, each finer level being one small box that refines
    the low corner block of the level below (a deep, narrow hierarchy: 11 levels give Level_10, whose
    name sorts between Level_1 and Level_2)"""
    rng = random.Random(seed)
    nprng = np.random.default_rng(seed)
    assert m.nlevels == 1
    nd = m.ndims
    for lv in range(1, nlevels):
        m.dx.append([v / 2 for v in m.dx[-1]])
        m.grid_sizes.append([2 * g for g in m.grid_sizes[-1]])
        b = Box([0] * nd, [3] * nd) if lv % 2 else Box([0] * nd, [1] * nd)
        prev = m.boxes[-1][0]
        b = Box([0] * nd, [min(2 * (prev.hi[d] + 1) - 1, b.hi[d]) for d in range(nd)])
        m.boxes.append([b])
        m.nlevels = lv + 1
        m.data.append([np.asfortranarray(_payload(m, lv, 0, b, m.payload if m.payload in ("random", "special") else "random", nprng),
                                         dtype=np.float64)])
        m.layout.append(_layout(rng, 1, 1, False))
    m.steps = [m.steps[0]] * nlevels
    return m


def refine_top(m, seed=0, from_level=None):
    """Level `from_level` (default: the finest) and every finer level of a model with >= 2 levels on an index
    space twice as fine: the refinement ratio below `from_level` becomes 4 (Header ratio line `2 4` or `4 2` for
    three levels, as AMReX writes with amr.ref_ratio = 2 4 / 4 2). Boxes keep their physical extent, every new
    cell gets its own value. Only `uncovered_mask` and `write_plotfile` know `m.ratios`: the other reference
    operations of this module assume the ratio 2 (section 9 of DESIGN.md)."""
    assert m.nlevels >= 2
    nprng = np.random.default_rng(seed + 4242)
    k = m.nlevels - 1 if from_level is None else int(from_level)
    assert 1 <= k <= m.nlevels - 1
    m.ratios = [2] * (m.nlevels - 1)
    m.ratios[k - 1] = 4
    m.dx = [list(v) for v in m.dx]
    m.grid_sizes = [list(g) for g in m.grid_sizes]
    m.boxes = list(m.boxes)
    m.data = list(m.data)
    for L in range(k, m.nlevels):
        m.dx[L] = [v / 2 for v in m.dx[L]]
        m.grid_sizes[L] = [2 * g for g in m.grid_sizes[L]]
        m.boxes[L] = [Box([2 * v for v in b.lo], [2 * v + 1 for v in b.hi]) for b in m.boxes[L]]
        new = []
        for a in m.data[L]:
            for d in range(m.ndims):
                a = np.repeat(a, 2, axis=d)
            a = np.array(a, dtype=np.float64, order="F", copy=True)
            fin = np.isfinite(a)
            amp = float(np.max(np.abs(a[fin]))) if fin.any() else 1.0
            a[fin] += (0.05 * (amp or 1.0)) * nprng.standard_normal(int(fin.sum()))
            new.append(a)
        m.data[L] = new
    return m


def plant_long_max(m, seed=0):
    """Min/max rows whose longest MAXIMUM token is longer than every MINIMUM token of the level: all values
    become positive with two-digit exponents ("1.2345678901234567e+00": 22 characters) and one cell per level
    holds a normal double with a three-digit exponent (23 characters: 6.3e+120 or 4.1e-120 as the maximum of a
    tiny field) - text buffers sized from the first table then cut the second."""
    rng = random.Random(seed)
    for lv in range(m.nlevels):
        for bi, a in enumerate(m.data[lv]):
            with np.errstate(all="ignore"):
                b = np.abs(np.nan_to_num(a, nan=1.5, posinf=2.5, neginf=3.5))
                b = 1.0 + np.mod(b, 7.0)
            m.data[lv][bi] = np.asfortranarray(b)
        bi = rng.randrange(len(m.data[lv]))
        f = rng.randrange(m.nfields)
        idx = tuple(rng.randrange(n) for n in m.data[lv][bi].shape[:-1]) + (f,)
        m.data[lv][bi][idx] = 6.3374381323380517e+120
    return m


def add_fine_boxes(m, boxes_lv1, seed=0, payload=None):
    """append a level holding the given boxes (index space of that level); data from the model's payload"""
    rng = random.Random(seed + 91)
    nprng = np.random.default_rng(seed + 91)
    lv = m.nlevels
    m.dx.append([v / 2 for v in m.dx[-1]])
    m.grid_sizes.append([2 * g for g in m.grid_sizes[-1]])
    m.boxes.append(list(boxes_lv1))
    m.nlevels = lv + 1
    pl = payload or (m.payload if m.payload in ("random", "special", "positive", "affine", "tagged", "nearconst") else "random")
    m.data.append([np.asfortranarray(_payload(m, lv, bi, b, pl, nprng), dtype=np.float64)
                   for bi, b in enumerate(boxes_lv1)])
    m.layout.append(_layout(rng, len(boxes_lv1), min(2, len(boxes_lv1)), True))
    m.steps = [m.steps[0]] * m.nlevels
    return m


def scale_model(kind, seed, ndims=3, names=None, nfields=3, payload="random", **kw):
    """Inputs of the sizes real runs reach, where batch / chunk / threshold logic switches:
    bigbox     3D, level 0 = one box of 122 x 96 x 100 cells (1.17 million: more than 2**20 cells, 8.9 MiB per
               field - not a whole number of MiB - more than 32 MiB with 5 fields) beside a thin 6 x 96 x 100 box in
               the SAME binary file (so one of them does not start at byte 0), level 1 = two small boxes;
    bigbox2d   2D, level 0 = a 256 x 256 box beside a 16 x 256 one, levels 1 and 2 small: flattened at the finest
               level the big box covers 2**20 pixels;
    manyboxes  a level-0 tiling into 1296 (2D) / 343 (3D) one-cell boxes, 96 binary files;
    unequal    3D, more than 128 boxes of unequal extents (1..2 cells) at level 0 and a finer level;
    coarse64   3D, level 0 = two 64**3 boxes, level 1 = 16 / 24-cell boxes refining an interior patch of ONE of them"""
    rng = random.Random(seed)
    names = list(names) if names else [f"f{i}" for i in range(nfields)]
    if kind == "bigbox":
        m = gen_model(seed, ndims=3, nlevels=1, names=names, base=[128, 96, 100], sizes=[[122, 6], [96], [100]],
                      payload=payload, nfiles=1, **kw)
        # the thin box is listed and stored first: the big FAB then starts behind it (not at byte 0), and the file is
        # in header order (what AMReX itself writes)
        if m.boxes[0][0].shape[0] > m.boxes[0][1].shape[0]:
            m.boxes[0].reverse(); m.data[0].reverse()
        m.layout[0] = {"file_of": [m.layout[0]["file_of"][0]] * 2, "write_order": [0, 1]}
        big = max(m.boxes[0], key=lambda b: b.shape[0])
        x0 = 2 * big.lo[0]
        fine = [Box((x0 + 4, 8, 8), (x0 + 19, 23, 23)), Box((x0 + 200, 160, 150), (x0 + 215, 175, 173))]
        m = add_fine_boxes(m, fine, seed)
        m.layout[1] = {"file_of": [m.layout[1]["file_of"][0]] * 2, "write_order": [0, 1]}
        return m
    if kind == "bigbox2d":
        for k in range(50):      # 272 = 256 + 16, but also 17 x 16: draw until the tiling holds the big box
            m = gen_model(seed + 100003 * k, ndims=2, nlevels=1, names=names, base=[272, 256], sizes=[[256, 16], [256]],
                          payload=payload, nfiles=1, **kw)
            if max(b.shape[0] for b in m.boxes[0]) == 256:
                break
        big = max(m.boxes[0], key=lambda b: b.shape[0])
        x0 = 2 * big.lo[0]
        add_fine_boxes(m, [Box((x0 + 8, 8), (x0 + 39, 31)), Box((x0 + 400, 300), (x0 + 431, 347))], seed)
        b1 = m.boxes[1][0]
        return add_fine_boxes(m, [Box((2 * b1.lo[0] + 4, 2 * b1.lo[1] + 4), (2 * b1.lo[0] + 27, 2 * b1.lo[1] + 19))], seed + 1)
    if kind == "manyboxes":
        base = [36, 36] if ndims == 2 else [7, 7, 7]
        return gen_model(seed, ndims=ndims, nlevels=1, names=names, base=base, bf=1, maxsz=1, payload=payload,
                         nfiles=kw.pop("nfiles", 96), **kw)
    if kind == "unequal":
        return gen_model(seed, ndims=3, nlevels=2, names=names, base=[10, 10, 12], bf=1, maxsz=2, payload=payload,
                         nfiles=kw.pop("nfiles", 5), **kw)
    if kind == "coarse64":
        m = gen_model(seed, ndims=3, nlevels=1, names=names, base=[128, 64, 64], sizes=[[64], [64], [64]],
                      payload=payload, **kw)
        host = m.boxes[0][seed % 2]
        lo = [2 * v + 24 for v in host.lo]
        fine = []
        for i, sx in enumerate((16, 24)):
            for j, sy in enumerate((24, 16)):
                x = lo[0] + (0 if i == 0 else 16); y = lo[1] + (0 if j == 0 else 24)
                fine.append(Box((x, y, lo[2]), (x + sx - 1, y + sy - 1, lo[2] + 23)))
        return add_fine_boxes(m, fine, seed)
    raise ValueError(kind)
