"""./check <PROP> quick|thorough [--replay path]  — driver: builds the cases of a property,
runs them under the monitors, merges what was observed, writes evidence, prints the verdict."""
import os, sys, json, time, importlib, argparse, re
from . import common, runner, findings


def _load(pid):
    return importlib.import_module(f"vlib.props.{pid.lower()}")


def _strict(x):
    """evidence must be strict JSON: non-finite floats (a NaN header time in a sample) become text"""
    if isinstance(x, float) and (x != x or x in (float("inf"), float("-inf"))):
        return repr(x)
    if isinstance(x, dict):
        return {str(k): _strict(v) for k, v in x.items()}
    if isinstance(x, (list, tuple)):
        return [_strict(v) for v in x]
    return x


def _chains(cases, tier, spec):
    """chains of three different cases to be run in one process each"""
    k = spec.get(tier, 0) if isinstance(spec, dict) else int(spec)
    plain = [c for c in cases if isinstance(c, dict) and c.get("kind") not in ("repo_suite", "asset", "huge", "long_mismatch")
             and "asset" not in c]
    n = len(plain)
    k = min(k, n // 3)
    out = []
    for j in range(k):
        out.append({"__chain__": [plain[j], plain[(j + n // 3) % n], plain[(j + 2 * (n // 3)) % n]],
                    "same_dir": j % 2 == 1})
    return out


def main():
    ap = argparse.ArgumentParser()
    ap.add_argument("prop")
    ap.add_argument("tier", nargs="?", default=os.environ.get("VERIF_TIER", "quick"))
    ap.add_argument("--replay")
    ap.add_argument("--verbose", action="store_true")
    ap.add_argument("--subset", type=int, default=0)      # internal: every k-th case only, no evidence (the -O run)
    a = ap.parse_args()
    pid = a.prop.upper()
    tier = a.tier if a.tier in ("quick", "thorough") else "quick"
    seed = int(os.environ.get("VERIF_SEED", "0"))
    t0 = time.time()
    if a.replay and not sys.flags.optimize:
        with open(a.replay) as f:
            if json.load(f).get("python_O"):      # a violation met under `python -O`: replay it there
                os.environ["PYTHONOPTIMIZE"] = "1"
                os.execv(common.PY, [common.PY, "-O", "-u", "-m", "vlib.main"] + sys.argv[1:])
    # the interpreter's own configuration is part of the environment: a sample of the cases also runs under
    # `python -O` (PYTHONOPTIMIZE), where assert statements - and whatever they do - do not exist
    opt_child = None
    if not a.replay and not a.subset and not sys.flags.optimize and os.environ.get("VERIF_OPT", "on") != "off":
        import subprocess
        k = getattr(_load(pid), "OPT_SUBSET", {"quick": 4, "thorough": 8})[tier]
        opt_log = os.path.join(common.scratch_root(), "python_O.log")
        opt_child = (subprocess.Popen([common.PY, "-O", "-u", "-m", "vlib.main", pid, tier, "--subset", str(k)],
                                      stdout=open(opt_log, "w"), stderr=subprocess.STDOUT, cwd=common.VERIF,
                                      env=dict(os.environ, PYTHONOPTIMIZE="1", VERIF_OPT="off",
                                               # ... and another string-hash seed (the iteration order of sets of names)
                                               PYTHONHASHSEED=str(1000 + seed))), opt_log, k)
    common.ensure_deps()
    common.import_repo()
    from . import typefuzz
    typefuzz.install()
    mod = _load(pid)
    if hasattr(mod, "setup"):
        mod.setup()
    if a.replay:
        with open(a.replay) as f:
            rp = json.load(f)
        cases = [rp["case"]]
        replay_ctx = [rp.get("process_index", 0)]
    else:
        cases = mod.cases(tier, seed)
        if a.subset:
            cases = [c for c in cases if not (isinstance(c, dict) and c.get("kind") in ("repo_suite", "huge", "huge_output"))][::a.subset]
    timeout = getattr(mod, "TIMEOUT", {"quick": 240, "thorough": 900})[tier]

    def prog(d, n):
        print(f"[{pid} {tier}] {d}/{n} cases, {time.time()-t0:.0f}s", flush=True)
    def run_any(case, work, rec):
        """one case, or a chain of cases run one after the other in the same process (whatever
        one run leaves behind in module / class level state meets the next input)"""
        if isinstance(case, dict) and "__chain__" in case:
            import shutil
            for j, c in enumerate(case["__chain__"]):
                # every other chain reuses one directory: the next input sits at the very path the
                # previous one had (regenerated output of a running simulation, a notebook re-reading)
                sub = os.path.join(work, "k" if case.get("same_dir") else f"k{j}")
                if case.get("same_dir"):
                    shutil.rmtree(sub, ignore_errors=True)
                    rec.count("chained_case_runs_same_paths")
                os.makedirs(sub, exist_ok=True)
                mod.run_case(c, sub, rec)
                rec.count("chained_case_runs")
            return
        mod.run_case(case, work, rec)

    chains = []
    if not a.replay and not a.subset:
        chains = _chains(cases, tier, getattr(mod, "CHAIN", {"quick": 6, "thorough": 60}))
    results = runner.run_cases(cases, run_any, timeout=timeout, quiet=not a.verbose,
                               progress=prog, indices=replay_ctx if a.replay else None)
    if chains:
        results += runner.run_cases(chains, run_any, timeout=3 * timeout, quiet=not a.verbose, progress=prog)
        cases = list(cases) + chains
    # ---- merge
    evals = held = skipped = 0
    nontriv = set()
    obs, sets = {}, {}
    samples, viols, incs, errors, timeouts = [], [], [], [], 0
    for case, r in zip(cases, results):
        if r is None or r.get("timeout"):
            timeouts += 1
            incs.append({"reason": "watchdog" + (": " + " | ".join(l.strip() for l in r["stack"].splitlines() if l.strip().startswith("File"))[:600] if r and r.get("stack") else ""), "case": case})
            continue
        rec = r.get("rec")
        if r.get("error"):
            errors.append({"case": case, "error": r["error"]})
        if not rec:
            continue
        evals += rec["evals"]; held += rec["held"]; skipped += rec["skipped"]
        nontriv.update(rec["nontrivial"])
        for k, v in rec["obs"].items():
            obs[k] = obs.get(k, 0) + v
        for k, v in rec["sets"].items():
            sets.setdefault(k, set()).update(v)
        for s in rec["samples"]:
            if len(samples) < 5:
                samples.append(s)
        for v in rec["violations"]:
            v["case"] = case
            v["process_index"] = r.get("ctx", r.get("i", 0))
            viols.append(v)
        for inc in rec["inconclusive"]:
            inc["case"] = case
            incs.append(inc)
    # ---- classify violations against the committed known-findings file
    kf = findings.load()
    known_hit, unlisted = {}, []
    for v in viols:
        ent = findings.match(kf, pid, v.get("mech"))
        if ent is not None:
            known_hit.setdefault(ent["id"], {"entry": ent, "n": 0, "first": v})
            known_hit[ent["id"]]["n"] += 1
        else:
            unlisted.append(v)
    for fid, h in sorted(known_hit.items()):
        print(f"KNOWN-FINDING: property={pid} {fid} {h['entry']['what']} (met {h['n']}x this run)")
    replay_paths = []
    if os.environ.get("VERIF_DUMP"):
        with open(os.environ["VERIF_DUMP"], "w") as f:
            json.dump(viols, f, default=str)
    if unlisted:
        rdir = os.path.join(common.VERIF, "replays", pid)
        os.makedirs(rdir, exist_ok=True)
        seen = set()
        for v in unlisted:
            h = common.sha(v["case"], v["what"])
            if h in seen:
                continue
            seen.add(h)
            p = os.path.join(rdir, f"{h}.json")
            with open(p, "w") as f:
                json.dump({"property": pid, "case": v["case"], "what": v["what"],
                           "mech": v.get("mech"), "witness": v.get("witness"),
                           "process_index": v.get("process_index", 0),
                           "python_O": bool(sys.flags.optimize)}, f, indent=1,
                          default=str)
            replay_paths.append((p, v["what"]))
            if len(replay_paths) >= 25:
                break
    # ---- required observations (a deciding monitor that was never reached => inconclusive)
    missing = []
    if not a.replay and not a.subset:
        for k, need in getattr(mod, "REQUIRED_OBS", {}).items():
            have = obs.get(k, 0) if not k.startswith("set:") else len(sets.get(k[4:], ()))
            if have < need:
                missing.append(f"{k}: {have} < {need}")
    wall = time.time() - t0
    # ---- the sample run under python -O
    opt_summary = None
    opt_viol_lines = []
    if opt_child is not None:
        proc, opt_log, k = opt_child
        try:
            rc = proc.wait(timeout=4 * 3600)
        except Exception:
            proc.kill(); rc = None
        txt = open(opt_log, errors="replace").read()
        opt_viol_lines = [l for l in txt.split("\n") if l.startswith("VIOLATION")]
        summ = [l for l in txt.split("\n") if l.startswith(f"[{pid} ") and "evaluations=" in l]
        m_ = re.search(r"cases=(\d+) evaluations=(\d+)", summ[-1]) if summ else None
        opt_summary = {"every_kth_case": k, "exit": rc, "cases_run": int(m_.group(1)) if m_ else 0,
                       "evaluations": int(m_.group(2)) if m_ else 0, "violations": len(opt_viol_lines)}
        if rc not in (0, 1) or not m_:
            incs.append({"reason": "the sample run under python -O did not finish", "case": None})
            print(txt[-1500:])
    # ---- evidence
    if not a.replay and not a.subset:
        cov = {
            "evaluations": int(evals),
            "distinct_nontrivial": len(nontriv),
            "rule": getattr(mod, "RULE", ""),
            "samples": samples or [cases[0]] if cases else [],
            "cases_run": len(cases),
            "held": held,
            "skipped_out_of_scope": skipped,
            "inconclusive": len(incs),
            "inconclusive_reasons": sorted({i["reason"] for i in incs})[:20],
            "watchdog_timeouts": timeouts,
            "harness_errors": len(errors),
            "violations_unlisted": len(unlisted),
            "known_findings_met": {k: v["n"] for k, v in known_hit.items()},
            "observed": {k: obs[k] for k in sorted(obs)},
            "distinct_seen": {k: len(v) for k, v in sorted(sets.items())},
            "distinct_seen_items": {k: sorted(v)[:60] for k, v in sorted(sets.items()) if len(v) <= 200},
            "required_observations_missing": missing,
        }
        if opt_summary is not None:
            cov["sample_under_python_O"] = opt_summary
        if hasattr(mod, "extra_coverage"):
            cov.update(mod.extra_coverage(obs, sets))
        ev = {"property_id": pid, "tier": tier, "seed": seed,
              "level": getattr(mod, "LEVEL", "exploration"), "coverage": cov,
              "assumptions": getattr(mod, "ASSUMPTIONS", []), "wall_s": round(wall, 2),
              "violations": len(unlisted)}
        # evidence describes runs against /repo itself; runs against a scratch copy (VERIF_REPO set by the
        # mutant self-test) must not overwrite it
        evdir = os.path.join(common.VERIF, "evidence")
        if os.path.realpath(common.REPO) != os.path.realpath("/repo"):
            evdir = os.environ.get("VERIF_EVIDENCE_DIR") or os.path.join(common.scratch_root(), "evidence_alt")
        os.makedirs(evdir, exist_ok=True)
        with open(os.path.join(evdir, f"{pid}.json"), "w") as f:
            json.dump(_strict(ev), f, indent=1, sort_keys=True, default=str, allow_nan=False)
    # ---- verdict
    print(f"[{pid} {tier} seed={seed}] cases={len(cases)} evaluations={evals} held={held} "
          f"distinct_nontrivial={len(nontriv)} skipped={skipped} inconclusive={len(incs)} "
          f"known={sum(v['n'] for v in known_hit.values())} violations={len(unlisted)} "
          f"errors={len(errors)} wall={wall:.1f}s")
    if a.verbose or a.replay:
        for k in sorted(obs):
            print(f"   obs {k} = {obs[k]}")
        for v in viols[:10]:
            print("   viol:", json.dumps(v, default=str)[:1500])
    for e in errors[:3]:
        print("HARNESS-ERROR", json.dumps(e["case"], default=str)[:300])
        print(e["error"])
    if opt_viol_lines:
        print(f"   {len(opt_viol_lines)} violation(s) in the sample of cases run under python -O (assert statements removed):")
        for l in opt_viol_lines[:25]:
            print(l + "  [python -O]")
        if not unlisted:
            sys.exit(1)
    if unlisted:
        groups = {}
        for v in unlisted:
            g = re.sub(r"[\[\(].*", "", v["what"])[:110]
            groups[g] = groups.get(g, 0) + 1
        for g, n in sorted(groups.items(), key=lambda kv: -kv[1])[:15]:
            print(f"   {n:6d} x {g}")
        for p, what in replay_paths:
            print(f"VIOLATION property={pid} replay={p}  # {what[:200]}")
        sys.exit(1)
    if a.subset and not errors:
        sys.exit(0)
    opt_bad = opt_summary is not None and (opt_summary["exit"] not in (0, 1) or not opt_summary["evaluations"])
    if errors or missing or (timeouts and timeouts > max(1, len(cases) // 20)) or evals == 0 or opt_bad:
        why = []
        if opt_bad:
            why.append("the sample run under python -O did not finish or evaluated nothing")
        if errors:
            why.append(f"{len(errors)} harness errors")
        if missing:
            why.append("monitors not reached: " + "; ".join(missing))
        if timeouts:
            why.append(f"{timeouts} watchdog timeouts")
        if evals == 0:
            why.append("nothing evaluated")
        print(f"INCONCLUSIVE property={pid} " + " | ".join(why))
        sys.exit(2)
    sys.exit(0)


if __name__ == "__main__":
    main()
