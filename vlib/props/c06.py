"""C06 — combine merges fields box by box, independent of either input's file layout.
History + model: pairs of generated 3D plotfiles on one mesh whose binary layouts are chosen
independently; every combine() output is compared with the per-box concatenation of the two
models and must validate; mismatched pairs must be refused before anything is written."""
import os, random
import numpy as np
from .. import common, gen, refparse, refmodel, workload, pools, endurance

ID = "C06"
LEVEL = "exploration"
RULE = ("cases = pairs of generated 3D plotfiles on a common mesh x layout relation of the second "
        "input {identical, same files other in-file order, other files, single file} x first "
        "input {monotone, non-monotone in-file order} x selections (None / space-separated "
        "string / list, overlapping names) through combine() and the combine entry point; plus "
        "mismatched pairs (level count, other tiling, permuted box order). one evaluation = one "
        "combine call compared with the model concatenation and validated by taste. distinct = "
        "hash(mesh, layouts, selections); non-trivial = layouts differ or first input "
        "non-monotone or a selection is used")
ASSUMPTIONS = ["generator/refparse trusted base", "pool shim M1 with shuffled schedules",
               "a pair with the same boxes in another order: 'refuse or correct' (statement silent)"]
REQUIRED_OBS = {"endurance_calls": 100, "combined": 80, "six_digit_index_mismatch_refused": 1, "roles_swapped_same_process": 40, "mismatched_refused": 10, "cli_runs": 5, "first_nonmonotone": 3}
TIMEOUT = {"quick": 300, "thorough": 1500}
RELS = ["same", "order", "other", "single"]


def cases(tier, seed):
    n = 48 if tier == "quick" else 2500
    rng = random.Random(seed + 600)
    cs = []
    for i in range(n):
        bf = rng.choice([2, 4, 4, 8])
        g = dict(seed=rng.randrange(10 ** 9), ndims=3, nlevels=1 + i % 3, bf=bf,
                 base_blocks=(1, 3) if bf >= 4 else (2, 4), payload=rng.choice(["random", "special", "extreme"]))
        if bf == 8:
            g["nlevels"] = min(g["nlevels"], 2)
        c = {"gen": g, "sel_seed": seed * 29 + i, "shuffle1": i % 2 == 0}
        if i % 8 == 3:      # the first input keeps its binary files in a store, linked into the level directories
            c["store1"] = ["files", "files+levels"][(i // 8) % 2]
        if i % 8 == 6:      # ... or is reached through `<symlinked directory>/../plt1`
            c["reach1"] = True
        if i % 8 == 7:      # maxima whose text is longer than the text of every minimum of their level
            c["long_max"] = True
        if i % 8 == 5:      # the first input's level directories carry another prefix than the default
            c["level_prefix1"] = ["Lev_", "amr_level_"][(i // 8) % 2]
        if i % 8 == 1:      # file numbers of five and six digits at one level
            g["file_id_base"] = "mixed"
        cs.append(c)
    # scale: several hundred boxes at a level spread over more than 64 binary files
    for k in range(1 if tier == "quick" else 3):
        cs.append({"gen": dict(seed=seed * 5 + 6160 + k, ndims=3, payload="random"), "scale": "manyboxes",
                   "sel_seed": seed * 29 + 6160 + k, "shuffle1": True})
    # scale: box indices of six digits - two meshes one cell apart must still be told apart
    for k in range(1 if tier == "quick" else 4):
        cs.append({"kind": "long_mismatch", "split": 100002 + 7001 * k + seed % 5, "sel_seed": seed * 29 + 999 + k})
    # M10: the same operation repeated in one process under a low open-file limit (vlib/endurance.py)
    return list(cs) + [endurance.case("combine", tier, seed)]


_calls = {}


def setup():
    pools.install()
    C = common.repo_module("amr_kitchen.combine.combine")
    for name in ("parallel_combine_by_binfile", "parallel_combine_by_binfile_offsets",
                 "parallel_combine_by_boxes_offsets"):
        orig = getattr(C, name, None)
        if orig is None:
            continue

        def mk(orig, name):
            def w(args):
                _calls[name] = _calls.get(name, 0) + 1
                return orig(args)
            w.__name__ = name
            w.__wrapped__ = orig
            return w
        setattr(C, name, mk(orig, name))


def taste_ok(path):
    from amr_kitchen.taste import Taster
    try:
        return bool(Taster(path, boxes_coordinates=True, nofail=True, verbose=0))
    except Exception:
        return False


def long_mismatch(case, work, rec):
    """two single-level plotfiles on a 131072-cell-long domain at the origin whose two boxes are cut
    one cell apart: different boxes => refused before anything is written"""
    from amr_kitchen import PlotfileCooker
    from amr_kitchen.combine.combine import combine

    def build(split, name, names):
        m = gen.gen_model(seed=case["sel_seed"], ndims=3, nlevels=1, names=names, base=[131072, 2, 2], bf=2,
                          maxsz=131072, aniso=False, payload="random", nfiles=1, origin=[0.0, 0.0, 0.0])
        B = type(m.boxes[0][0])
        m.boxes[0] = [B((0, 0, 0), (split - 1, 1, 1)), B((split, 0, 0), (131071, 1, 1))]
        rng = np.random.default_rng(case["sel_seed"])
        m.data[0] = [np.asfortranarray(rng.standard_normal(b.shape + (len(names),))) for b in m.boxes[0]]
        m.layout[0] = {"file_of": [0, 0], "write_order": [0, 1]}
        p = os.path.join(work, name)
        gen.write_plotfile(m, p)
        return p
    pa = build(case["split"], "long_a", ["f0"])
    pb = build(case["split"] + 1, "long_b", ["g0"])
    rec.sample({"long_mismatch": case["split"]})
    for order in ((pa, pb), (pb, pa)):
        out = os.path.join(work, "out_long")
        pools.CTL.reset(mode="inproc", seed=1)
        key = ("long_mismatch", case["split"], order[0] == pa)
        what = f"boxes cut at cell {case['split']} / {case['split'] + 1} of a 131072-cell-long domain"
        try:
            combine(PlotfileCooker(order[0]), PlotfileCooker(order[1]), pltout=out)
            refused = False
        except Exception:
            refused = True
        if refused and not os.path.exists(out):
            rec.count("mismatched_refused"); rec.count("six_digit_index_mismatch_refused")
            rec.ok(key, True)
        elif refused:
            rec.violation(f"mismatched pair ({what}) refused only after writing into the output", key=key, mech="eq-index-tolerance")
        else:
            rec.violation(f"mismatched pair ({what}) was combined instead of refused", key=key, mech="eq-index-tolerance")
        import shutil
        shutil.rmtree(out, ignore_errors=True)


def run_case(case, work, rec):
    if case.get("kind") == "endurance":
        return endurance.run_case(case, work, rec)
    if case.get("kind") == "long_mismatch":
        return long_mismatch(case, work, rec)
    from amr_kitchen import PlotfileCooker
    from amr_kitchen.combine.combine import combine
    rng = random.Random(case["sel_seed"])
    g = dict(case["gen"])
    n1 = ["a0", "a1", "shared", "a2"][:rng.randint(2, 4)]
    n2 = ["b0", "shared", "b1", "a0"][:rng.randint(1, 4)]
    if case.get("scale"):
        m1 = gen.scale_model(case["scale"], names=n1, **g)
        m2base = gen.scale_model(case["scale"], names=n2, data_seed=g["seed"] + 1, **g)
        rec.count("scale_cases")
    else:
        m1 = gen.gen_model(names=n1, shuffle=case["shuffle1"], **g)
        m2base = gen.gen_model(names=n2, data_seed=g["seed"] + 1, **g)
    assert [b.key() for b in m1.boxes[0]] == [b.key() for b in m2base.boxes[0]]
    if case.get("long_max"):
        gen.plant_long_max(m1, g["seed"]); gen.plant_long_max(m2base, g["seed"] + 1)
        rec.count("long_maximum_tokens")
    # the second input starts from the first one's layout, then the relation is applied
    m2base.layout = [dict(l) for l in m1.copy().layout]
    p1 = os.path.join(work, "plt1")
    fmt = lambda: dict(ref_ratio_extra=rng.choice([0, 0, 1, 3]), trailing_blank=rng.random() < 0.7,
                       close_blank=rng.random() < 0.3, floatfmt=rng.choice(["repr", "17g"]))
    gen.write_plotfile(m1, p1, **dict(fmt(), level_prefix=case.get("level_prefix1", "Level_")))
    if case.get("level_prefix1"):
        rec.count("first_input_with_other_level_prefix")
    if case.get("store1"):
        workload.to_store(p1, level_links="levels" in case["store1"])
        rec.count("first_input_with_linked_binary_files")
    if case.get("reach1"):
        p1 = workload.reach_link_dotdot(work, p1)
        rec.count("first_input_reached_through_link_dotdot")
    e1 = refmodel.from_model(m1)
    digest = common.sha(g, n1, n2, case["shuffle1"])
    rec.sample({"plotfile1": gen.describe(m1), "fields2": n2})
    nonmono1 = any(m1.nonmonotone(lv) for lv in range(m1.nlevels))
    if nonmono1:
        rec.count("first_nonmonotone")
    n0 = dict(_calls)
    for rel in RELS:
        m2 = gen.relayout(m2base, case["sel_seed"] + RELS.index(rel), rel)
        p2 = os.path.join(work, f"plt2_{rel}")
        gen.write_plotfile(m2, p2, **fmt())
        e2 = refmodel.from_model(m2)
        s1 = rng.sample(n1, rng.randint(1, len(n1)))
        s2 = rng.sample(n2, rng.randint(1, len(n2)))
        sels = [(None, None, "none"), (" ".join(s1), None, "str1"), (None, list(s2), "list2"),
                (" ".join(s1), " ".join(s2), "str1+str2"), (" ".join(s1) + " nope", " ".join(["nope2"] + s2), "unknown")]
        for v1, v2, sd in sels:
            out = workload.out_path(work, f"out_{rel}_{sd}", len(sd), rec)
            key = (digest, rel, str(v1), str(v2))
            descr = f"layout relation={rel} first_nonmonotone={nonmono1} vars1={v1!r} vars2={v2!r}"
            k1 = list(n1) if v1 is None else [v for v in v1.split() if v in n1]
            l2 = list(n2) if v2 is None else [v for v in (v2.split() if isinstance(v2, str) else v2) if v in n2]
            k2 = [v for v in l2 if v not in k1]
            use_cli = sd in ("str1+str2",) or (sd == "none" and rel == "other")
            pools.CTL.reset(mode="inproc", seed=rng.randrange(10 ** 6))
            try:
                if use_cli:
                    cli = common.repo_module("amr_kitchen.combine.cli")
                    args = ["combine", "-p1", p1, "-p2", p2, "-o", out]
                    if v1 is not None:
                        args += ["-v1", v1]
                    if v2 is not None:
                        args += ["-v2", v2]
                    with common.argv(args):
                        cli.main()
                    rec.count("cli_runs")
                else:
                    combine(PlotfileCooker(p1), PlotfileCooker(p2), pltout=out, vars1=v1, vars2=v2)
            except Exception as e:
                if not k1 or not k2:
                    rec.ok(key, False)     # nothing to take from one side: refusing is fine
                else:
                    rec.violation(f"combine raised {type(e).__name__}: {descr}", key=key,
                                  witness={"relation": rel, "vars1": v1, "vars2": v2, "exc": repr(e)[:300]})
                continue
            if not k1 or not k2:
                rec.ok(key, False)
                continue
            rec.count("combined")
            exp = refmodel.concat(e1, [n1.index(v) for v in k1], e2, [n2.index(v) for v in k2])
            probs = refmodel.compare(out, exp)
            if not probs and not taste_ok(out):
                probs.append("validation (with box coordinates) rejects the combined plotfile")
            if probs:
                rec.violation(f"combined plotfile differs from the per-box concatenation ({probs[0][:110]}): {descr}",
                              key=key, witness={"relation": rel, "vars1": v1, "vars2": v2, "differences": probs[:5],
                                                "first_nonmonotone": nonmono1})
            else:
                rec.ok(key, rel != "same" or nonmono1 or v1 is not None or v2 is not None)
        # roles swapped: the first input - whose box-to-file map drives the tasks and the output level
        # headers - changes from call to call inside this process
        out = os.path.join(work, f"out_{rel}_swapped")
        key = (digest, rel, "swapped")
        descr = f"layout relation={rel} roles swapped (second plotfile first) after {len(sels)} calls in the process"
        pools.CTL.reset(mode="inproc", seed=rng.randrange(10 ** 6))
        try:
            combine(PlotfileCooker(p2), PlotfileCooker(p1), pltout=out)
            rec.count("combined"); rec.count("roles_swapped_same_process")
            exp = refmodel.concat(e2, list(range(len(n2))), e1, [i for i, v in enumerate(n1) if v not in n2])
            probs = refmodel.compare(out, exp)
            if not probs and not taste_ok(out):
                probs.append("validation (with box coordinates) rejects the combined plotfile")
            if probs:
                rec.violation(f"combined plotfile differs from the per-box concatenation ({probs[0][:110]}): {descr}",
                              key=key, witness={"relation": rel, "differences": probs[:5]})
            else:
                rec.ok(key, True)
        except Exception as e:
            rec.violation(f"combine raised {type(e).__name__}: {descr}", key=key, witness={"exc": repr(e)[:300]})
    # mismatched pairs: must be refused with nothing written
    mism = []
    if m1.nlevels >= 2:
        mism.append(("fewer levels", gen.drop_finest(m2base)))
    for lv in range(m1.nlevels - 1, -1, -1):
        if len(m1.boxes[lv]) >= 2 and (lv >= 1 or m1.nlevels == 1):
            mism.append((f"level {lv} lacks its last box (box list is a prefix of the other's)", gen.drop_last_box(m2base, lv)))
            break
    g2 = dict(g); g2["seed"] = g["seed"] + 7
    other = gen.gen_model(names=n2, **g2)
    same_tiling = all([b.key() for b in other.boxes[lv]] == [b.key() for b in m1.boxes[lv]] for lv in range(min(other.nlevels, m1.nlevels)))
    if not same_tiling and other.base == m1.base:
        mism.append(("other tiling", other))
    for what, mm in mism:
        p2 = os.path.join(work, "plt2_mis")
        gen.write_plotfile(mm, p2)
        for order in ((p1, p2), (p2, p1)):
            out = os.path.join(work, "out_mis")
            pools.CTL.reset(mode="inproc", seed=1)
            try:
                combine(PlotfileCooker(order[0]), PlotfileCooker(order[1]), pltout=out)
                refused = False
            except Exception:
                refused = True
            key = (digest, "mismatch", what, order[0] == p1)
            if refused and not os.path.exists(out):
                rec.count("mismatched_refused")
                rec.ok(key, True)
            elif refused:
                rec.violation(f"mismatched pair ({what}) refused only after writing into the output", key=key,
                              witness={"what": what, "left": sorted(os.listdir(out))[:5]})
            else:
                rec.violation(f"mismatched pair ({what}) was combined instead of refused", key=key, witness={"what": what})
            if os.path.exists(out):
                import shutil; shutil.rmtree(out)
    # same boxes in another order: refuse, or be right
    mp = gen.permute_boxes(m2base, case["sel_seed"])
    if any([b.key() for b in mp.boxes[lv]] != [b.key() for b in m1.boxes[lv]] for lv in range(m1.nlevels)):
        p2 = os.path.join(work, "plt2_perm")
        gen.write_plotfile(mp, p2)
        out = os.path.join(work, "out_perm")
        pools.CTL.reset(mode="inproc", seed=1)
        try:
            combine(PlotfileCooker(p1), PlotfileCooker(p2), pltout=out)
            k2 = [v for v in n2 if v not in n1]
            exp = refmodel.concat(e1, list(range(len(n1))), refmodel.from_model(mp), [n2.index(v) for v in k2])
            probs = refmodel.compare(out, exp)
            if probs:
                rec.violation(f"pair with permuted box order combined into wrong contents ({probs[0][:100]})",
                              witness={"differences": probs[:4]})
            else:
                rec.ok((digest, "perm"), True)
        except Exception:
            rec.ok((digest, "perm-refused"), False)
    for k, v in _calls.items():
        rec.count("fn:" + k, v - n0.get(k, 0))
    for p in pools.check_log():
        rec.violation("pool log: " + p)
