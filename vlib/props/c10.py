"""C10 — whip's uniform grid is the covering grid of the chosen field.
Monitors: the saved .npy of every run of the whip entry point is compared bit for bit with the
covering grid of the model (cast to the requested dtype); the M1 schedule controller replays
every completion order of the per-file read tasks of each level (imap_unordered delivers in
the chosen order), in-process and fork-per-task."""
import os, random, itertools, shutil
import numpy as np
from .. import common, gen, refparse, workload, pools, contracts, endurance

ID = "C10"
LEVEL = "exploration"
RULE = ("cases = generated 3D plotfiles (any layout, 1-3 levels) x field x dtype in {float64, "
        "float32} x level limit x every completion order of the per-file tasks of each level "
        "(all n! for <=4 files, sampled beyond; other levels pinned); one evaluation = one run of "
        "the whip entry point whose saved array is compared bitwise with the model's covering "
        "grid. distinct = hash(model, field, dtype, limit, schedule); non-trivial = >=2 levels "
        "and >=2 files on some level under a non-identity completion order")
ASSUMPTIONS = ["tasks atomic per binary file; the parent applies results in delivery order",
               "generator trusted"]
REQUIRED_OBS = {"endurance_calls": 100, "real_pool_runs": 3, "runs": 50, "schedules_nonidentity": 10, "limited": 10, "float32": 20}
TIMEOUT = {"quick": 600, "thorough": 3000}


def cases(tier, seed):
    n = 20 if tier == "quick" else 700
    cs = workload.reader_population(n, seed + 1000, ndims=(3,), max_levels=3, max_fields=4,
                                    payloads=("random", "special", "nearconst"))
    for i, c in enumerate(cs):
        c["sel_seed"] = seed * 67 + i
        c["gen"]["base_blocks"] = (1, 2) if c["gen"]["bf"] >= 4 else (2, 4)
        if i % 5 == 1:      # fine boxes that hold only zeros over coarse data that is not zero
            c["zero_fine"] = True
            c["gen"]["nlevels"] = max(2, c["gen"]["nlevels"])
        if i % 5 == 2 and "names" not in c["gen"]:      # field names that differ only in letter case / contain one another
            c["gen"]["nfields"] = 4
            c["gen"]["names"] = gen.confusable_names(random.Random(seed * 71 + i), 4)
        if i % 5 == 3:      # a header written with six significant digits: cell sizes whose ratios are not exactly 2
            c["gen"]["aniso"] = [1.0 / 6, 1.0 / 3, 1.0 / 12]
            c["gen"]["nlevels"] = 3 if c["gen"]["bf"] <= 2 else max(2, c["gen"]["nlevels"])
            c["fmt"]["floatfmt"] = "6g"
    # scale: a level-0 box of more than a million cells under a finer level (9.4 million cells on the uniform grid)
    cs.append({"scale": "bigbox", "gen": dict(seed=seed * 17 + 1010, nfields=2), "fmt": {}, "sel_seed": seed * 67 + 1010, "light": True})
    # the entry point under real pools, for every start method a platform may have (fork: Linux up to Python
    # 3.13; spawn: macOS, Windows; forkserver: Linux from 3.14 - with the last two the workers re-import the
    # modules instead of inheriting the parent's state)
    combos = [(3, "fork"), (2, "spawn"), (3, "forkserver")] if tier == "quick" else \
        [(w, st) for st in ("fork", "spawn", "forkserver") for w in (1, 2, 5)]
    for k in range(1 if tier == "quick" else 4):
        cs.append({"kind": "real_pools", "seed": seed * 100 + 31 + k, "combos": combos})
    # M10: the same operation repeated in one process under a low open-file limit (vlib/endurance.py)
    return cs + [endurance.case("whip", tier, seed)]


def setup():
    pools.install()
    contracts.install(("expand",))


def run_real_pools(case, work, rec):
    """whip in subprocesses under real multiprocessing pools (forced worker counts, injected delays) and every
    start method; the saved array is compared with the covering grid of the model"""
    import json, subprocess
    from .. import scenarios
    m, _ = scenarios._plt(os.path.join(work, "model"), "plt_w", case["seed"], nlevels=3, bf=2, base_blocks=(2, 2), maxsz=4)
    with np.errstate(all="ignore"):
        exp = gen.covering(m, m.names.index("f1"), m.nlevels - 1)
    env = dict(os.environ, PYTHONPATH=common.VERIF)
    for wi, (w, start) in enumerate(case["combos"]):
        spec = {"scenario": "whip", "seed": case["seed"], "workers": w, "delay_seed": case["seed"] * 3 + wi,
                "work": os.path.join(work, f"{start}{w}"), "start": start}
        key = ("real_pools", case["seed"], w, start)
        descr = f"field=f1 (second field) {w} workers, start method {start}"
        p = subprocess.run([common.PY, "-m", "vlib.realpool", json.dumps(spec)], capture_output=True, text=True,
                           timeout=600, cwd=common.VERIF, env=env)
        r = next((json.loads(l[7:]) for l in p.stdout.split("\n") if l.startswith("RESULT ")), None)
        if r is None:
            rec.undecided(f"real-pool run gave no result (exit {p.returncode})")
            continue
        rec.count("real_pool_runs"); rec.seen("start_methods", start)
        out = os.path.join(spec["work"], "out", "ugrid.npy")
        if not r.get("ok") or not os.path.exists(out):
            rec.violation(f"whip raised under a real pool ({r.get('error')}): {descr}", key=key, witness={"trace": r.get("trace")})
            continue
        got = np.load(out)
        if got.shape != exp.shape or got.tobytes() != np.ascontiguousarray(exp).tobytes():
            nbad = int(np.sum(got != exp)) if got.shape == exp.shape else -1
            rec.violation(f"uniform grid is not the covering grid ({nbad} of {got.size} cells differ from the covering grid): {descr}",
                          key=key, witness={"config": descr})
        else:
            rec.ok(key, True)
        shutil.rmtree(spec["work"], ignore_errors=True)


def run_case(case, work, rec):
    if case.get("kind") == "endurance":
        return endurance.run_case(case, work, rec)
    if case.get("kind") == "real_pools":
        return run_real_pools(case, work, rec)
    cli = common.repo_module("amr_kitchen.whip.cli")
    rng = random.Random(case["sel_seed"])
    m, path = workload.build(case, work)
    digest = common.sha(case["gen"])
    rec.sample({"plotfile": gen.describe(m)})
    if len(set(m.names)) != len(m.names):
        return
    finest = m.nlevels - 1
    n0 = dict(contracts.COUNTS)
    light = case.get("light", False)       # the scale case: one field, the two completion orders that matter
    if light:
        rec.count("scale_cases")
    # look-alike names (letter case, one name part of another): every field is asked for, or the one a careless
    # lookup confuses may not be among the two drawn
    nsel = 1 if light else (min(5, m.nfields) if case.get("gen", {}).get("names") else min(2, m.nfields))
    for field in rng.sample(m.names, nsel):
        fidx = m.names.index(field)
        for dtype in (("float64",) if light else ("float64", "float32")):
            for limit in [None] + list(range(finest)):
                L = finest if limit is None else limit
                with np.errstate(all="ignore"):
                    exp = gen.covering(m, fidx, L).astype(dtype)
                nfl = [m.nfiles(lv) for lv in range(L + 1)]
                # recording run: which pool calls does this invocation make (not assumed to be one per level)
                pools.CTL.reset(mode="inproc", default="identity")
                rec_out = os.path.join(work, "ugrid_rec.npy")
                rargs = ["whip", "-v", field, "-d", dtype, "-y", "-o", rec_out, path]
                if limit is not None:
                    rargs[1:1] = ["-l", str(limit)]
                try:
                    with common.argv(rargs):
                        cli.main()
                except (Exception, SystemExit):
                    pass
                ncalls = [c[1] for c in pools.CTL.calls]
                plans = [({}, "identity")]
                for ci, nt in enumerate(ncalls):
                    if nt < 2:
                        continue
                    if nt <= 4:
                        perms = list(itertools.permutations(range(nt)))[1:]
                    else:
                        perms = [tuple(reversed(range(nt)))]
                        for _ in range(5):
                            p = list(range(nt)); rng.shuffle(p); perms.append(tuple(p))
                    if dtype == "float32" or limit is not None:
                        perms = perms[:3]
                    for p in perms:
                        plans.append(({ci: p}, "identity"))
                plans.append(({}, "shuffle"))
                plans.append(({}, "reverse"))
                if light:
                    plans = [plans[0], plans[-1]]
                for pi, (plan, default) in enumerate(plans):
                    mode = "fork" if pi % 6 == 2 else "inproc"
                    pools.CTL.reset(mode=mode, plan=plan, default=default, seed=rng.randrange(10 ** 6))
                    out = os.path.join(work, "ugrid.npy")
                    if os.path.exists(out):
                        os.remove(out)
                    args = ["whip", "-v", field, "-d", dtype, "-y", "-o", out, path]
                    if limit is not None:
                        args[1:1] = ["-l", str(limit)]
                    key = (digest, field, dtype, limit, str(plan), default, mode)
                    descr = f"field={field} dtype={dtype} limit_level={limit} completion orders={plan or default} ({mode})"
                    try:
                        with common.argv(args):
                            cli.main()
                        got = np.load(out)
                    except (Exception, SystemExit) as e:
                        rec.violation(f"whip raised {type(e).__name__}: {descr}", key=key,
                                      witness={"config": descr, "exc": repr(e)[:300]})
                        continue
                    rec.count("runs")
                    nonid = any(list(c[2]) != sorted(c[2]) for c in pools.CTL.calls)
                    if nonid:
                        rec.count("schedules_nonidentity")
                    if limit is not None:
                        rec.count("limited")
                    if dtype == "float32":
                        rec.count("float32")
                    probs = []
                    if str(got.dtype) != dtype:
                        probs.append(f"dtype {got.dtype} != {dtype}")
                    if got.shape != exp.shape:
                        probs.append(f"shape {got.shape} != level-{L} grid {exp.shape}")
                    elif got.tobytes() != np.ascontiguousarray(exp).tobytes():
                        nbad = int(np.sum(got.view(np.uint64 if dtype == "float64" else np.uint32) !=
                                          np.ascontiguousarray(exp).view(np.uint64 if dtype == "float64" else np.uint32)))
                        probs.append(f"{nbad} of {got.size} cells differ from the covering grid"
                                     + (" (array is all zeros)" if not got.any() else ""))
                    if probs:
                        rec.violation(f"uniform grid is not the covering grid ({probs[0][:120]}): {descr}", key=key,
                                      witness={"config": descr, "differences": probs[:4]})
                    else:
                        rec.ok(key, L >= 1 and max(nfl) >= 2 and nonid)
    for k, v in contracts.COUNTS.items():
        rec.count("calls:" + k, v - n0.get(k, 0))
    # contracts hang on internal functions: a failure is a verdict only when the case also failed
    # behaviourally (then it localises the defect); alone it is reported as an observation
    if contracts.FAILS:
        rec.count("contract_failures", len(contracts.FAILS))
        if rec.violations:
            for f in contracts.FAILS[:3]:
                rec.violation(f"(diagnostic) contract on {f['contract']} broken at the source: {f['detail']}", witness=f)
