"""C08 — mandoline 2D flattening equals the finest-level covering grid exactly.
Monitor: every flatten is compared bit for bit with the covering grid of the model; the
poison allocator (M5) makes dependence on uninitialised memory observable; contract on
expand_array (= np.kron with ones) runs inside the workers."""
import os, random
import numpy as np
from .. import common, gen, refparse, workload, pools, poison, contracts, endurance

ID = "C08"
LEVEL = "exploration"
RULE = ("cases = generated 2D plotfiles (rectangular domains, non-zero origin, non-square boxes, "
        "any file layout, special payloads; the real 2D asset in thorough) x field lists (one, "
        "several, with grid_level, 'all') x level limits x {serial, parallel} x 2 poison values; "
        "one evaluation = one flatten compared bitwise with the model's covering grid. distinct = "
        "hash(model, fields, limit, mode); non-trivial = >=2 levels and a non-square domain or box")
ASSUMPTIONS = ["generator/refparse trusted base", "pool shim M1 with shuffled schedules"]
REQUIRED_OBS = {"endurance_calls": 100, "flattened": 100, "reused_instance_calls": 60, "parallel": 30, "with_grid_level": 30, "cli_runs": 20}


def cases(tier, seed):
    n = 60 if tier == "quick" else 4000
    cs = workload.reader_population(n, seed + 800, ndims=(2,), max_levels=4, max_fields=5,
                                    payloads=("random", "special", "nearconst"))
    for i, c in enumerate(cs):
        c["sel_seed"] = seed * 43 + i
        if i % 10 == 7:      # a header written with six significant digits: cell sizes whose ratios are not exactly 2
            c["gen"]["aniso"] = [1.0 / 30, 1.0 / 15]      # (0.0333333 / 0.0166667 = 1.999996)
            c["gen"]["nlevels"] = 3 if c["gen"]["bf"] <= 2 else max(2, c["gen"]["nlevels"])
            c["gen"].pop("length_scale", None); c["gen"].pop("origin", None)
            c["fmt"]["floatfmt"] = "6g"
    if tier == "thorough":
        cs.append({"asset": "example_plt_2d", "sel_seed": seed})
        cs.append({"kind": "repo_suite", "sel_seed": seed})
    # scale: a 256 x 256 level-0 box under two finer levels: at the finest level its footprint is 2**20 pixels
    cs.append({"scale": "bigbox2d", "gen": dict(seed=seed * 13 + 8180, names=["f0", "f1"]), "fmt": {},
               "sel_seed": seed * 59 + 8180, "big": True})
    # sequences across tools: 2D plotfiles written by mandoline's own plotfile format from 3D slices
    rng2 = random.Random(seed + 808)
    for k in range(3 if tier == "quick" else 40):
        g = dict(seed=rng2.randrange(10 ** 9), ndims=3, nlevels=2 + k % 2, bf=2, base_blocks=(2, 3), maxsz=4,
                 names=["f0", "f1", "f2"], payload="random", refine_frac=0.3)
        cs.append({"kind": "from_slice", "gen": g, "fmt": {}, "sel_seed": seed * 61 + k})
    # a deep, narrow hierarchy: 11 levels (Level_10 sorts between Level_1 and Level_2 as a name)
    cs.append({"gen": dict(seed=seed + 4242, ndims=2, nlevels=1, base=[2, 2], bf=2, maxsz=2, names=["f0", "f1"],
                           payload="random", nfiles=1), "fmt": {}, "deepen": 11, "sel_seed": seed * 59 + 4242, "deep": True})
    # M10: the same operation repeated in one process under a low open-file limit (vlib/endurance.py)
    return list(cs) + [endurance.case("flatten2d", tier, seed)]


def setup():
    pools.install()
    poison.install()
    contracts.install(("expand",))


def run_case(case, work, rec):
    if case.get("kind") == "endurance":
        return endurance.run_case(case, work, rec)
    if case.get("kind") == "repo_suite":
        # the contracts while the repository's own tests run (real assets, real pools)
        from .. import reposuite
        counts, fails, summary, npids = reposuite.run(work, ['expand'])
        rec.count("repo_suite_runs")
        rec.count("repo_suite_processes_reporting", npids)
        total = 0
        for k, v in counts.items():
            rec.count("repo_suite_calls:" + k, v)
            total += v
        rec.sample({"repo_suite": summary, "contract_evaluations": counts})
        mine = [f for f in fails if f["fail"] in ('expand_array','expand_array3d')]
        if total == 0:
            rec.undecided("no contract evaluated under the repository's suite")
        for f in mine[:10]:
            rec.violation(f"contract on {f['fail']} broken while the repository's own tests ran: {f['detail'][:200]}",
                          witness=f, key=("repo_suite", f["fail"], f["detail"][:80]))
        if not mine and total:
            rec.ok(("repo_suite", summary), True)
        return
    from amr_kitchen.mandoline import Mandoline
    rng = random.Random(case["sel_seed"])
    if case.get("kind") == "from_slice":
        # a sequence across tools: the 2D plotfile is what mandoline itself wrote for a 3D slice, at a position
        # where the plane meets no box of the finest level - that level is kept with zero boxes
        m3, p3 = workload.build(case, work, name="plt3d")
        fin = m3.nlevels - 1
        found = None
        for n in rng.sample(range(3), 3):
            dxn = m3.dx[fin][n]
            spans = sorted((b.lo[n], b.hi[n] + 1) for b in m3.boxes[fin])
            ncell = m3.grid_sizes[fin][n]
            free = [k for k in range(ncell) if not any(lo - 1 <= k <= hi for lo, hi in spans)]
            if free:
                k = rng.choice(free)
                found = (n, m3.geo_low[n] + (k + 0.3) * dxn)
                break
        if found is None:
            rec.skip("the finest level spans the whole domain along every direction")
            return
        path = os.path.join(work, "slice2d")
        pools.CTL.reset(mode="inproc", seed=5)
        poison.set_poison(np.nan)
        try:
            Mandoline(p3, fields=list(m3.names[:2]), serial=True, verbose=0).slice(normal=found[0], pos=found[1], outfile=path, fformat="plotfile")
        except Exception as e:
            rec.skip("mandoline did not write a slice there (C16's subject)")
            return
        rec.count("inputs_written_by_mandoline")
        case = dict(case, asset="slice2d")
    if "asset" in case:
        path = path if case.get("kind") == "from_slice" else os.path.join(common.REPO, "test_assets", case["asset"])
        r = refparse.parse(path)
        if any(len(lev["idx"]) == 0 for lev in r["levels"]):
            rec.count("inputs_with_an_empty_level")
        m = gen.Model()
        m.ndims = 2; m.nlevels = r["finest"] + 1; m.names = r["names"]; m.nfields = len(m.names)
        m.grid_sizes = r["grid_sizes"]; m.geo_low = r["geo_low"]; m.geo_high = r["geo_high"]; m.dx = r["dx"]
        m.boxes = [[gen.Box(lo, hi) for lo, hi in lev["idx"]] for lev in r["levels"]]
        m.data = [[d["arr"] for d in lev["data"]] for lev in r["levels"]]
        digest = case["asset"]
    else:
        m, path = workload.build(case, work)
        digest = common.sha(case["gen"])
        rec.sample({"plotfile": gen.describe(m)})
    names = m.names
    if len(set(names)) != len(names):
        return
    finest = m.nlevels - 1
    nonsq = m.grid_sizes[0][0] != m.grid_sizes[0][1] or any(b.shape[0] != b.shape[1] for lv in m.boxes for b in lv)
    n0 = dict(contracts.COUNTS)
    flists = [[names[0]], [names[-1], "grid_level"], ["grid_level"], ["all"],
              rng.sample(names, min(len(names), 3)), ["grid_level"] + list(reversed(names[:2]))]
    if len(names) >= 2:
        flists.append([names[-1], "grid_level", names[0]])
        # a field named twice (a script that appends to a list of names): refusing is fine, other values are not
        flists.append([names[0], names[0], names[-1], "grid_level"])
        flists.append([names[-1], names[0], names[-1]])
    if "asset" in case:
        flists = [[names[0]], [names[-1], "grid_level"], [names[2], names[1]]] if len(names) >= 3 else \
            [[names[0]], [names[-1], "grid_level"], ["all"], ["grid_level"]]
    if case.get("big"):        # a 1088 x 1024 covering grid: two field lists
        flists = [[names[0], "grid_level"], ["all"]]
        rec.count("scale_cases")
    deep = case.get("deep", False)
    if deep:        # 11 levels, a 2048 x 4096 covering grid: one field list, the limits that matter
        flists = [[names[0], "grid_level"]]
        rec.count("deep_hierarchies")
    for fl in flists:
        for limit in ([None, 9] if deep else [None] + list(range(finest + 1))):
            L = finest if limit is None else limit
            for serial in ((True,) if deep and limit == 9 else (True, False)):
                outs = []
                key = (digest, tuple(fl), limit, serial)
                descr = f"fields={fl} limit_level={limit} serial={serial}"
                err = None
                for pv in (np.nan, 1e30):
                    poison.set_poison(pv)
                    pools.CTL.reset(mode="inproc", seed=rng.randrange(10 ** 6))
                    try:
                        farg = fl[0] if len(fl) == 1 and fl[0] not in ("all", "grid_level") and serial else list(fl)
                        if isinstance(farg, str):
                            rec.count("field_given_as_string")
                        md = Mandoline(path, fields=farg, limit_level=limit, serial=serial, verbose=0)
                        outs.append(md.slice(fformat="return"))
                    except Exception as e:
                        err = f"{type(e).__name__}: {str(e)[:200]}"
                        break
                if err and len(set(fl)) != len(fl):
                    rec.skip("a request that names a field twice was refused")
                    continue
                if len(set(fl)) != len(fl):
                    rec.count("requests_naming_a_field_twice")
                if err:
                    rec.violation(f"flattening raised {err.split(':')[0]}: {descr}", key=key,
                                  witness={"config": descr, "exc": err})
                    continue
                rec.count("flattened")
                if not serial:
                    rec.count("parallel")
                probs = []
                o1, o2 = outs
                want = list(names) if fl == ["all"] else [f for f in fl if f != "grid_level"]
                with_grid = "grid_level" in fl or fl == ["all"]
                if with_grid:
                    rec.count("with_grid_level")
                lmap = gen.level_map(m, L)
                for nm in want:
                    if nm not in o1:
                        probs.append(f"field {nm} missing from the output"); continue
                    exp = gen.covering(m, names.index(nm), L).T
                    a = np.asarray(o1[nm])
                    if not refparse.biteq(a, exp):
                        probs.append(f"field {nm}: differs from the covering grid "
                                     f"(shape {a.shape} vs {exp.shape})")
                    if not refparse.biteq(o1[nm], o2[nm]):
                        probs.append(f"field {nm}: result depends on uninitialised memory (poison runs differ)")
                if with_grid:
                    gl = np.asarray(o1.get("grid_level"))
                    if gl.shape != lmap.T.shape or not np.array_equal(gl, lmap.T):
                        probs.append("grid_level differs from the level map")
                    if not refparse.biteq(o1["grid_level"], o2["grid_level"]):
                        probs.append("grid_level depends on uninitialised memory")
                # the cell centres of the grid *as the Header states it* (a header written with six significant digits
                # states other cell sizes than the model was generated with)
                try:
                    hd = refparse.parse_header(path)
                    h_low, h_high, h_dx = hd["geo_low"], hd["geo_high"], hd["dx"]
                except Exception:
                    h_low, h_high, h_dx = m.geo_low, m.geo_high, m.dx
                for ax, d in (("x", 0), ("y", 1)):
                    n_ = m.grid_sizes[L][d]
                    exp = h_low[d] + (np.arange(n_) + 0.5) * h_dx[L][d]
                    # a rounded header states the grid twice (cell size; domain bounds / cell count) and the two do not
                    # agree to the last digit: anything between the two readings is "the cell centres" (a wrong cell
                    # is off by half a cell at least)
                    exp_b = h_low[d] + (np.arange(n_) + 0.5) * (h_high[d] - h_low[d]) / n_
                    slack = 1.5 * float(np.max(np.abs(exp - exp_b)))
                    g = np.asarray(o1.get(ax))
                    if g.shape != exp.shape or not np.allclose(g, exp, rtol=1e-12, atol=slack + 1e-12 * max(1.0, np.abs(exp).max())):
                        probs.append(f"{ax} coordinates are not the cell centres of the level-{L} grid")
                extra = [k for k in o1 if k not in want and k not in ("x", "y", "time", "dx", "slice_normal", "slice_pos", "grid_level")]
                if extra:
                    probs.append(f"unrequested arrays in the output: {extra[:4]}")
                if probs:
                    rec.violation(f"flattened output is not the covering grid ({probs[0][:100]}): {descr}",
                                  key=key, witness={"config": descr, "differences": probs[:5]})
                else:
                    rec.ok(key, m.nlevels >= 2 and L >= 1 and nonsq)
    # one Mandoline instance flattened several times: every call returns the covering grid, and what an
    # earlier call returned does not change afterwards
    if deep:
        return
    if "asset" not in case:
        poison.set_poison(np.nan)
        nm0 = names[-1]
        exp = gen.covering(m, names.index(nm0), finest).T
        lmapT = gen.level_map(m, finest).T
        for serial in (True, False):
            key = (digest, "reuse", serial)
            held = []
            try:
                pools.CTL.reset(mode="inproc", seed=rng.randrange(10 ** 6))
                md = Mandoline(path, fields=[nm0, "grid_level"], serial=serial, verbose=0)
                bad = None
                for rep in range(3):
                    o = md.slice(fformat="return")
                    rec.count("reused_instance_calls")
                    held.append(o)
                    if not refparse.biteq(o[nm0], exp) or not np.array_equal(np.asarray(o["grid_level"]), lmapT):
                        bad = f"call {rep + 1} on the same instance is not the covering grid"
                        break
                if bad is None and any(not refparse.biteq(o[nm0], exp) for o in held):
                    bad = "an array returned by an earlier call changed during a later call"
                if bad:
                    rec.violation(f"flattened output is not the covering grid ({bad}): fields={[nm0, 'grid_level']} serial={serial}",
                                  key=key, witness={"what": bad})
                else:
                    rec.ok(key, m.nlevels >= 2)
            except Exception as e:
                rec.violation(f"flattening raised {type(e).__name__}: repeated calls on one instance, serial={serial}",
                              key=key, witness={"exc": repr(e)[:300]})
    # the mandoline entry point (array format) must save what the API returns
    cli = common.repo_module("amr_kitchen.mandoline.cli")
    for fl in flists[:2]:
        limit = rng.choice([None] + list(range(finest + 1)))
        L = finest if limit is None else limit
        out = os.path.join(work, "cli_flat")
        args = ["mandoline", "-v"] + list(fl) + ["-f", "array", "-o", out, "-V", "0"]
        if limit is not None:
            args += ["-L", str(limit)]
        if rng.random() < 0.5:
            args.append("-s")
        args.append(path)
        key = (digest, "cli", tuple(fl), limit)
        poison.set_poison(np.nan)
        pools.CTL.reset(mode="inproc", seed=rng.randrange(10 ** 6))
        try:
            with common.argv(args):
                cli.main()
            z = np.load(out + ".npz")
        except (Exception, SystemExit) as e:
            rec.violation(f"mandoline entry point raised {type(e).__name__}: {' '.join(args[1:-1])}", key=key,
                          witness={"argv": args[1:-1], "exc": repr(e)[:300]})
            continue
        rec.count("cli_runs")
        probs = []
        want = list(names) if fl == ["all"] else [f for f in fl if f != "grid_level"]
        for nm in want:
            exp = gen.covering(m, names.index(nm), L).T
            if nm not in z.files or not refparse.biteq(z[nm], exp):
                probs.append(f"saved field {nm} is not the covering grid of level {L}")
        if ("grid_level" in fl or fl == ["all"]) and not np.array_equal(z["grid_level"], gen.level_map(m, L).T):
            probs.append("saved grid_level is not the level map")
        if probs:
            rec.violation(f"mandoline entry point saved something else than the covering grid ({probs[0]}): {' '.join(args[1:-1])}",
                          key=key, witness={"argv": args[1:-1], "differences": probs[:3]})
        else:
            rec.ok(key, m.nlevels >= 2 and L >= 1 and nonsq)
    for k, v in contracts.COUNTS.items():
        rec.count("calls:" + k, v - n0.get(k, 0))
    # contracts hang on internal functions: a failure is a verdict only when the case also failed
    # behaviourally (then it localises the defect); alone it is reported as an observation
    if contracts.FAILS:
        rec.count("contract_failures", len(contracts.FAILS))
        if rec.violations:
            for f in contracts.FAILS[:3]:
                rec.violation(f"(diagnostic) contract on {f['contract']} broken at the source: {f['detail']}", witness=f)
