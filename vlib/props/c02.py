"""C02 — opening a plotfile exposes exactly the metadata its headers state.
Monitor: post-condition on PlotfileCooker.__init__ (attributes == independent parse == model)
evaluated for every opening configuration of every generated plotfile."""
import json, os, random, shutil
import numpy as np
from .. import common, gen, refparse, workload, pools, contracts

ID = "C02"
LEVEL = "exploration"
RULE = ("cases = generated plotfiles (2D/3D, 1-4 levels, non-zero origin, anisotropic cells, "
        "ref-ratio line longer than needed, repeated field names, names with metacharacters / blanks / UTF-8 text, trailing-blank/float-format "
        "variants, NaN/inf min-max tables) x limit_level in {None,0..finest,finest+1,+3} x "
        "header_only x maxmins; one evaluation = one opening whose public attributes are compared "
        "with the model and with an independent parse. distinct = hash(model, configuration); "
        "non-trivial = >=2 levels or non-zero origin or anisotropic cells or repeated names")
ASSUMPTIONS = ["generator + refparse are the trusted base (round-trip self-check per case)",
               "float(text) round trip of repr/%.17g is exact"]
# the share of cases also run under python -O (1 = all): the anchor code validates with assert statements
OPT_SUBSET = {"quick": 1, "thorough": 2}
REQUIRED_OBS = {"openings": 200, "over_limit_refused": 20, "header_only_without_levels": 20}


def cases(tier, seed):
    n = 200 if tier == "quick" else 20000
    cs = workload.reader_population(n, seed + 101, payloads=("random", "special", "extreme"))
    rng = random.Random(seed)
    for i, c in enumerate(cs):
        g = c["gen"]
        if i % 3 == 0:   # repeated names
            nf = g["nfields"] = max(3, min(g["nfields"], 7))
            base = ["rho", "temp", "Y(H2)", "rho", "temp", "rho", "x(1)"]
            if i % 6 == 3:     # next to a field literally called like the key made up for a repetition
                base = ["rho", "rho_2", "rho", "temp", "rho_2", "rho", "rho_3"]
            g["names"] = base[:nf]
            del g["nfields"]
        elif i % 3 == 1 and g["nfields"] <= 12:   # unusual but valid names: metacharacters, blanks, UTF-8 text
            g["names"] = gen.odd_names(random.Random(seed * 31 + i), g["nfields"], blanks=True, nonascii=True)
            del g["nfields"]
        g["time"] = rng.choice([0.0, 1.25e-3, -2.5, 7.0, 1e300, 4.9e-324, 0.1 + 0.2])
        if i % 5 == 0:
            g["origin"] = [rng.choice([-3.25, 1e-3, 100.0]) for _ in range(g["ndims"])]
    # one level step refined by 4 (Header ratio lines `4`, `2 4`, `4 2`): cell sizes and grid sizes are what the
    # Header prints, not what a ratio of 2 would give
    r4 = []
    for i, c in enumerate(cs):
        if len(r4) >= (12 if tier == "quick" else 600):
            break
        g = c["gen"]
        if g.get("nlevels", 1) in (2, 3) and g.get("bf", 8) <= 4 and not c.get("scale") and not c.get("deepen"):
            c2 = json.loads(json.dumps(c))
            c2["gen"]["seed"] = g["seed"] + 40004
            c2["ratio4"] = "coarse" if (len(r4) % 3 == 2 and g["nlevels"] == 3) else True
            r4.append(c2)
    cs += r4
    if tier == "thorough":
        for a in ("example_plt_2d", "example_plt_3d", "plt1_Y", "plt2_F", "plt_eb_3d"):
            cs.append({"asset": a})
        cs.append({"kind": "repo_suite"})
    # scale: 1296 boxes at a level (2D), 343 (3D), ~ 96 binary files
    for k, nd in enumerate((2, 3)):
        cs.append({"scale": "manyboxes", "gen": dict(seed=seed + 7170 + k, ndims=nd, nfields=2), "fmt": {}})
    return cs


def setup():
    pools.install()


def model_vs_ref(m, r):
    """generator self-check: the independent parse of what was written is the model"""
    assert r["names"] == m.names and r["ndims"] == m.ndims and r["finest"] == m.nlevels - 1
    assert r["time"] == m.time and r["geo_low"] == m.geo_low and r["geo_high"] == m.geo_high
    assert r["dx"] == m.dx and r["grid_sizes"] == m.grid_sizes
    for lv in range(m.nlevels):
        lev = r["levels"][lv]
        assert [(tuple(a), tuple(b)) for a, b in lev["idx"]] == [b.key() for b in m.boxes[lv]]
        assert lev["phys"] == [m.phys_box(lv, bi) for bi in range(len(m.boxes[lv]))]
        assert lev["fod"] == list(zip(m.files[lv], m.offsets[lv]))


def run_case(case, work, rec):
    if case.get("kind") == "repo_suite":
        # the contracts while the repository's own tests run (real assets, real pools)
        from .. import reposuite
        counts, fails, summary, npids = reposuite.run(work, ['init'])
        rec.count("repo_suite_runs")
        rec.count("repo_suite_processes_reporting", npids)
        total = 0
        for k, v in counts.items():
            rec.count("repo_suite_calls:" + k, v)
            total += v
        rec.sample({"repo_suite": summary, "contract_evaluations": counts})
        mine = [f for f in fails if f["fail"] in ('PlotfileCooker.__init__',)]
        if total == 0:
            rec.undecided("no contract evaluated under the repository's suite")
        for f in mine[:10]:
            rec.violation(f"contract on {f['fail']} broken while the repository's own tests ran: {f['detail'][:200]}",
                          witness=f, key=("repo_suite", f["fail"], f["detail"][:80]))
        if not mine and total:
            rec.ok(("repo_suite", summary), True)
        return
    from amr_kitchen import PlotfileCooker
    if "asset" in case:
        path = os.path.join(common.REPO, "test_assets", case["asset"])
        r = refparse.parse(path, with_data=False)
        digest = case["asset"]
        nontriv = r["finest"] >= 1
    else:
        m, path = workload.build(case, work)
        r = refparse.parse(path, with_data=False)
        model_vs_ref(m, r)
        digest = common.sha(case["gen"], case["fmt"])
        nontriv = (m.nlevels >= 2 or any(v != 0 for v in m.geo_low) or len(set(m.dx[0])) > 1
                   or len(set(m.names)) < len(m.names))
        rec.sample({"plotfile": gen.describe(m), "fmt": case["fmt"], "time": m.time})
        if getattr(m, "ratios", None):
            rec.count("plotfiles_with_a_ratio_of_4")
            rec.seen("ratio_lines", " ".join(str(v) for v in m.ratios))
    finest = r["finest"]
    # a copy holding only the global Header (header_only must not need anything else)
    honly = os.path.join(work, "only_header")
    os.makedirs(honly, exist_ok=True)
    shutil.copy(os.path.join(path, "Header"), honly)
    for limit in [None] + list(range(finest + 1)) + [finest + 1, finest + 3]:
        for header_only in (False, True):
            for maxmins in (False, True):
                for src in ((path, honly) if header_only else (path,)):
                    key = (digest, limit, header_only, maxmins, src == honly)
                    descr = f"limit_level={limit} header_only={header_only} maxmins={maxmins}" + \
                            (" (directory holding only Header)" if src == honly else "")
                    try:
                        pck = PlotfileCooker(src, limit_level=limit, header_only=header_only,
                                             maxmins=maxmins)
                    except Exception as e:
                        if limit is not None and limit > finest:
                            rec.count("over_limit_refused")
                            rec.ok(key, False)
                        else:
                            rec.violation(f"opening raised {type(e).__name__}: {descr}",
                                          witness={"config": descr, "exc": repr(e)[:300]}, key=key)
                        continue
                    rec.count("openings")
                    if limit is not None and limit > finest:
                        rec.violation(f"a level limit above the finest level was accepted: {descr}",
                                      witness={"config": descr, "finest": finest}, key=key)
                        continue
                    L = finest if limit is None else limit
                    probs = []
                    if pck.limit_level != L:
                        probs.append(f"limit_level {pck.limit_level} != {L}")
                    if header_only:
                        if hasattr(pck, "cells"):
                            probs.append("header_only exposed cells")
                        if src == honly:
                            rec.count("header_only_without_levels")
                    else:
                        if not hasattr(pck, "cells"):
                            probs.append("no cells")
                    rr = r
                    try:
                        probs += contracts.compare_cooker(pck, rr, maxmins=(maxmins and not header_only))
                        if not header_only and not maxmins and any("mins" in c or "maxs" in c for c in pck.cells):
                            pass   # exposing extrema nobody asked for is harmless
                        if int(getattr(pck, "nfields", len(r["names"]))) != len(r["names"]):
                            probs.append("nfields")
                    except Exception as e:
                        probs.append(f"attributes not comparable: {type(e).__name__}: {e}")
                    if probs:
                        rec.violation(f"metadata differ from the headers ({probs[0]}): {descr}",
                                      witness={"config": descr, "differences": probs[:6]}, key=key)
                    else:
                        rec.ok(key, nontriv)
