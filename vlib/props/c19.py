"""C19 — point queries at interior cell centres return the stored cell value.
History + model: every pck[fsel](x, y, z) call at seeded interior cell centres of the finest
covering level is compared with the stored cell value; outside points must be refused."""
import os, random
import numpy as np
from .. import common, gen, workload, pools, endurance

ID = "C19"
LEVEL = "exploration"
RULE = ("cases = generated 3D plotfiles (non-zero origin, anisotropic cells, 1-3 levels, any "
        "layout) x seeded cell centres of the finest level covering them, at least one cell from "
        "every face of their box, x field selections (name, index, lists); plus points outside "
        "the domain on each side; one evaluation = one point query compared with the stored cell "
        "value (1e-9 * max|box data|). distinct = hash(model, selection, cell); non-trivial = "
        "non-zero origin or anisotropic cells or level > 0")
ASSUMPTIONS = ["scipy cubic-spline interpolation is exact at knots up to rounding",
               "generator trusted"]
# the share of cases also run under python -O (1 = all): the anchor code validates with assert statements
OPT_SUBSET = {"quick": 1, "thorough": 2}
REQUIRED_OBS = {"endurance_calls": 100, "queries": 300, "level_gt0": 30, "nonzero_origin": 100, "outside_refused": 30, "outside_within_a_cell": 100,
                "multi_field": 100,
                "queries_on_the_ratio4_level": 40}
TIMEOUT = {"quick": 300, "thorough": 1500}


def cases(tier, seed):
    n = 30 if tier == "quick" else 4000
    rng = random.Random(seed + 1900)
    cs = []
    for i in range(n):
        bf = rng.choice([4, 4, 8, 3, 6])
        g = dict(seed=rng.randrange(10 ** 9), ndims=3, nlevels=1 + i % 3, bf=bf, nfields=rng.randint(1, 4),
                 base_blocks=(1, 3) if bf <= 4 else (1, 2), payload=["random", "random", "trace", "nearconst"][i % 4])
        if bf >= 6:
            g["nlevels"] = min(g["nlevels"], 2)
        if i % 4 == 0:
            g["origin"] = [0.0, 0.0, 0.0]
        if i % 4 == 1:
            g["aniso"] = False
        if i % 6 == 3:      # the same geometry in micrometres / nanometres
            g["length_scale"] = [1e-6, 1e-9][(i // 6) % 2]
        if i % 6 == 5:      # far from the origin: coordinate / cell size of 1e5 .. 1e7
            g["origin"] = [rng.choice([1.0e5, -3.0e5, 2.5e6]) for _ in range(3)]
        cs.append({"gen": g, "sel_seed": seed * 71 + i, "npts": 40 if tier == "quick" else 90, "fmt": dict(ref_ratio_extra=rng.choice([0, 0, 1, 3]), trailing_blank=rng.random() < 0.7, close_blank=rng.random() < 0.3, floatfmt=rng.choice(["repr", "17g"]))})
    # refinement ratios that differ between levels (Header ratio line `2 4`, or `4` alone for two levels): the
    # finest level sits on an index space four times finer than the level below
    for k in range(6 if tier == "quick" else 400):
        g = dict(seed=rng.randrange(10 ** 9), ndims=3, nlevels=3 if k % 3 else 2, bf=rng.choice([4, 3]),
                 nfields=rng.randint(1, 3), base_blocks=(1, 2), payload=["random", "trace"][k % 2])
        if k % 4 == 0:
            g["origin"] = [0.0, 0.0, 0.0]
        cs.append({"gen": g, "ratio4": "coarse" if k % 3 == 2 else True, "sel_seed": seed * 71 + 4000 + k, "npts": 40 if tier == "quick" else 90,
                   "fmt": dict(ref_ratio_extra=rng.choice([0, 0, 1]), floatfmt=rng.choice(["repr", "17g"]))})
    # scale: a box of more than a million cells (queries anywhere inside it, its low faces included)
    for k in range(1 if tier == "quick" else 4):
        cs.append({"scale": "bigbox", "gen": dict(seed=seed * 31 + 1919 + k, nfields=2), "sel_seed": seed * 71 + 1919 + k,
                   "npts": 40 if tier == "quick" else 90, "fmt": {}})
    # M10: the same operation repeated in one process under a low open-file limit (vlib/endurance.py)
    return list(workload.add_reach_store(cs)) + [endurance.case("points", tier, seed)]


def setup():
    pools.install()


def run_case(case, work, rec):
    if case.get("kind") == "endurance":
        return endurance.run_case(case, work, rec)
    from amr_kitchen import PlotfileCooker
    rng = random.Random(case["sel_seed"])
    m, path = workload.build(case, work)
    digest = common.sha(case["gen"])
    rec.sample({"plotfile": gen.describe(m)})
    pck = PlotfileCooker(path)
    finest = m.nlevels - 1
    nf = m.nfields
    origin_nz = any(v != 0 for v in m.geo_low)
    aniso = len(set(m.dx[0])) > 1
    # candidate cells: interior cells of boxes (extent >= 3) not covered by the next level
    cands = []
    for lv in range(m.nlevels):
        for bi, b in enumerate(m.boxes[lv]):
            if min(b.shape) < 3:
                continue
            mask = gen.uncovered_mask(m, lv, bi, finest)
            inner = np.zeros(b.shape, dtype=bool)
            inner[1:-1, 1:-1, 1:-1] = True
            for ijk in np.argwhere(mask & inner):
                cands.append((lv, bi, tuple(int(v) for v in ijk)))
    rng.shuffle(cands)
    # prefer a spread over levels
    cands.sort(key=lambda c: -c[0] if rng.random() < 0.5 else 0)
    # ... and cells 1, 3, 7 cells away from each low and each high face of every box that is wide enough
    # (still interior cell centres: at least one cell from every face), whatever the box size
    near = []
    cset = None
    for lv in range(m.nlevels):
        for bi, b in enumerate(m.boxes[lv]):
            if min(b.shape) < 3:
                continue
            mid = [s // 2 for s in b.shape]
            for d in range(3):
                for k in (1, 3, 7):
                    for side in (0, 1):
                        if k >= b.shape[d] - 1:
                            continue
                        ijk = list(mid); ijk[d] = k if side == 0 else b.shape[d] - 1 - k
                        near.append((lv, bi, tuple(ijk)))
    if near:
        cset = set(cands)
        near = [c for c in near if c in cset]
        rng.shuffle(near)
    picked = near[:max(6, case["npts"] // 3)] + cands[:case["npts"]]
    # queries between boxes (a quarter of a cell from a box face, or on it): what they return is not this property's
    # business, but they are made on the same reader, *between* the interior queries - whatever they leave behind in
    # it must not change the answers that follow
    faces = []
    for lv in range(m.nlevels):
        for bi, b in enumerate(m.boxes[lv]):
            for d in range(3):
                for side in (0, 1):
                    for off in (0.25, 0.0):
                        x = (b.lo[d] + off) if side == 0 else (b.hi[d] + 1 - off)
                        fp = [m.geo_low[k] + (b.lo[k] + b.shape[k] / 2.0 + 0.5 * (b.shape[k] % 2 == 0)) * m.dx[lv][k] for k in range(3)]
                        fp[d] = m.geo_low[d] + x * m.dx[lv][d]
                        if m.geo_low[d] + 0.6 * m.dx[0][d] < fp[d] < m.geo_high[d] - 0.6 * m.dx[0][d]:
                            faces.append(fp)
    rng.shuffle(faces)

    def between_boxes():
        if not faces:
            return
        fp = faces[rng.randrange(len(faces))]
        try:
            pck[rng.randrange(nf)](*fp)
            rec.count("between_boxes_queries_interleaved")
        except Exception as e:
            rec.count("between_boxes_queries_interleaved_refused")
            rec.seen("between_boxes_refusals", f"{type(e).__name__}: {str(e)[:60]}")

    for qi, (lv, bi, ijk) in enumerate(picked + picked[:6]):      # the first six once more, after everything else
        if qi == 1 or rng.random() < 0.25:
            between_boxes()
        b = m.boxes[lv][bi]
        pt = [m.geo_low[d] + (b.lo[d] + ijk[d] + 0.5) * m.dx[lv][d] for d in range(3)]
        arr = m.data[lv][bi]
        scale = float(np.max(np.abs(arr)))
        f1 = rng.randrange(nf)
        fl = sorted(rng.sample(range(nf), min(nf, rng.randint(1, 3))))
        keys = list(pck.fields.keys())
        sels = [(f"int:{f1}", f1, [f1], True), (f"name:{keys[f1]}", keys[f1], [f1], True),
                (f"list:{fl}", fl, fl, False), (f"names:{[keys[i] for i in fl]}", [keys[i] for i in fl], fl, False),
                # the same multiple selections as numpy arrays (what np.flatnonzero / name arrays give)
                (f"nparr:{fl}", np.array(fl), fl, False), (f"npnames:{[keys[i] for i in fl]}", np.array([keys[i] for i in fl]), fl, False)]
        picks = rng.sample(sels, 3)
        if nf >= 3:      # a non-decreasing list that repeats a field and skips one: as long as the span it covers
            a = rng.randrange(nf - 2)
            rg = [[a, a, a + 2], [a, a + 2, a + 2]][rng.randrange(2)]
            picks.append([(f"repgap:{rg}", rg, rg, False), (f"repgapnames:{rg}", [keys[i] for i in rg], rg, False)][rng.randrange(2)])
        for fd, fsel, comps, single in picks:
            key = (digest, fd, lv, bi, ijk) + (() if qi < len(picked) else ("again",))
            descr = f"[{fd}] at point {pt} (centre of cell {ijk} of box {bi}, level {lv})"
            if rng.random() < 0.3:
                # the caller read this box earlier and overwrote the array it got (it is the caller's):
                # the query must still answer with the stored value
                try:
                    mine = pck[fsel][lv][bi]
                    if isinstance(mine, np.ndarray) and mine.flags.writeable:
                        mine[...] = -4.2e42
                        rec.count("box_read_and_overwritten_before_query")
                except Exception:
                    pass
            try:
                got = pck[fsel](*pt)
                vals = np.atleast_1d(np.asarray(got, dtype=float)).reshape(-1)
            except Exception as e:
                if fd.startswith("repgap"):
                    rec.skip("a selection that names a field twice was refused")
                    continue
                rec.violation(f"interior cell-centre query raised {type(e).__name__}: {descr}", key=key,
                              witness={"query": descr, "exc": repr(e)[:300], "geo_low": m.geo_low, "dx": m.dx[lv]})
                continue
            rec.count("queries")
            if fd.startswith("repgap"):
                rec.count("queries_with_a_repeated_field")
            if lv > 0:
                rec.count("level_gt0")
            if getattr(m, "ratios", None):
                rec.count("queries_ratio4_plotfile")
                rec.seen("ratio_lines", " ".join(str(v) for v in m.ratios))
                if lv >= 1 and m.ratios[lv - 1] == 4:
                    rec.count("queries_on_the_ratio4_level")
                elif lv >= 2:
                    rec.count("queries_above_the_ratio4_level")
            if origin_nz:
                rec.count("nonzero_origin")
            if not single:
                rec.count("multi_field")
            exp = np.array([arr[ijk + (c,)] for c in comps])
            # far from the origin the point is known to ulp(x): the interpolation lands eps * |x| / dx cells
            # off the centre, i.e. the value is off by that fraction of the difference to a neighbouring cell
            far = max(max(abs(a), abs(b_)) / d_ for a, b_, d_ in zip(m.geo_low, m.geo_high, m.dx[lv]))
            rtol = 1e-9 + 64 * 2.220446049250313e-16 * far
            if vals.shape == exp.shape and np.all(np.abs(vals - exp) <= rtol * max(scale, 1e-300)):
                rec.ok(key, origin_nz or aniso or lv > 0)
            else:
                rec.violation(f"point query does not return the stored cell value: {descr}", key=key,
                              witness={"query": descr, "got": vals.tolist()[:4], "expected": exp.tolist()[:4],
                                       "geo_low": m.geo_low, "dx": m.dx[lv]})
    # outside the domain on each side: refused
    ext = [m.geo_high[d] - m.geo_low[d] for d in range(3)]
    mid = [m.geo_low[d] + 0.37 * ext[d] for d in range(3)]
    for d in range(3):
        fdx = m.dx[m.nlevels - 1][d]
        outs = [("low", m.geo_low[d] - 0.6 * ext[d] - 1.0), ("high", m.geo_high[d] + 0.6 * ext[d] + 1.0)]
        # just outside: closer to the face than half a cell of the finest / coarsest level
        for frac in (1e-3, 0.25, 0.45, 1.0):
            for w in (fdx, m.dx[0][d]):
                outs += [(f"low-{frac}", m.geo_low[d] - frac * w), (f"high+{frac}", m.geo_high[d] + frac * w)]
        for side, p in outs:
            pt = list(mid); pt[d] = p
            key = (digest, "outside", d, side, round((p - m.geo_low[d]) / fdx, 6))
            if "-" in side or "+" in side:
                rec.count("outside_within_a_cell")
            try:
                got = pck[0](*pt)
                rec.violation(f"point outside the domain ({'xyz'[d]} {side}) was answered with {np.asarray(got).tolist()!r}",
                              key=key, witness={"point": pt, "geo_low": m.geo_low, "geo_high": m.geo_high})
            except Exception:
                rec.count("outside_refused")
                rec.ok(key, False)
