"""C07 — mandoline 3D slices interpolate the right samples at every pixel.
Monitors: reference slice with per-pixel decidability (slicemodel), poison allocator (M5, two
poison values per slice must agree bit for bit and leave no poison), affine-along-the-normal
exactness at every pixel, grid_level membership, coordinates, default position, refusal of
out-of-domain positions, Mandoline instance reuse."""
import os, random
import numpy as np
from .. import common, gen, refparse, workload, pools, poison, slicemodel, endurance

ID = "C07"
LEVEL = "exploration"
RULE = ("cases = generated 3D plotfiles (nested levels, non-zero origin, anisotropic cells) with "
        "fields affine in one coordinate each, (level,box,cell)-tagged fields constant along one "
        "direction and a random field x normal in {x,y,z} x level limits x {serial, parallel} x "
        "positions enumerated by class from the geometry of every level (cell centres, cell "
        "faces, box faces, 0.2/0.3/0.49-cell gaps on both sides of box faces, domain faces and "
        "gaps next to them, random, default, out of domain) x 2 poison values; one evaluation = "
        "one slice judged at every pixel. distinct = hash(model, normal, position, limit, mode, "
        "fields); non-trivial = >=2 levels selected and a position class other than the interior "
        "of a cell")
ASSUMPTIONS = ["pixels whose two bracketing samples exist only on different levels are not given "
               "a unique value by the statement: judged for determinism, poison, affine exactness "
               "and grid_level only", "positions within the tool's np.isclose snapping tolerance of "
               "a cell centre (but not on it) are skipped", "pool shim M1 with shuffled schedules"]
REQUIRED_OBS = {"endurance_calls": 100, "slices": 300, "pixels_decided": 20000, "class:boxface": 20, "class:gap-": 20,
                "class:gap+": 20, "class:domainface": 10, "class:centre": 20, "out_of_domain_refused": 10,
                "default_position": 5, "parallel": 50, "reuse": 5, "cli_runs": 30}
CHAIN = {"quick": 2, "thorough": 20}
TIMEOUT = {"quick": 600, "thorough": 3000}
NAMES = ["ax", "ay", "az", "tagx", "tagy", "tagz", "rnd", "near", "cix", "ciy", "ciz", "trc"]


def cases(tier, seed):
    n = 20 if tier == "quick" else 400
    rng = random.Random(seed + 700)
    cs = []
    for i in range(n):
        bf = rng.choice([2, 4, 4])
        g = dict(seed=rng.randrange(10 ** 9), ndims=3, nlevels=1 + i % 3 if i % 7 else 4, bf=bf,
                 names=NAMES, payload="affine", base_blocks=(1, 3) if bf == 4 else (2, 4))
        if g["nlevels"] == 4:
            g["bf"] = 2; g["base_blocks"] = (2, 2); g["maxsz"] = 4
        if i % 5 == 4:
            g["full_refine"] = True
        if i % 10 == 3:     # odd numbers of base cells: the domain centre is a cell centre, not a cell face
            g.update(bf=1, base=[5, 6, 7] if i % 20 == 3 else [7, 3, 9], maxsz=3, nlevels=1 + (i // 10) % 2)
            g.pop("base_blocks", None)
            g.pop("full_refine", None)
        if i % 6 == 2:      # the same geometry in micrometres / nanometres: cells tiny in absolute terms
            g["length_scale"] = [1e-6, 1e-9][(i // 6) % 2]
        if i % 4 == 1:      # far from the origin: coordinate / cell size of 1e5 .. 1e7 (coordinates in other units)
            g["origin"] = [rng.choice([1.0e5, -3.0e5, 2.5e6]) for _ in range(3)]
        for n in range(3):      # one case per normal: the 4-level plotfiles are the long poles
            cs.append({"gen": g, "sel_seed": seed * 47 + i * 3 + n, "per_class": 2 if tier == "quick" else 3,
                       "normals": [n], "fmt": dict(ref_ratio_extra=rng.choice([0, 0, 1, 3]), trailing_blank=rng.random() < 0.7, close_blank=rng.random() < 0.3, floatfmt=rng.choice(["repr", "17g"]))})
    # scale: more than 128 boxes of unequal extents at a level (one case per normal in the thorough tier)
    for n in ((seed % 3,) if tier == "quick" else (0, 1, 2)):
        cs.append({"scale": "unequal", "gen": dict(seed=seed * 11 + 7170 + n, names=NAMES, payload="affine"),
                   "sel_seed": seed * 47 + 7170 + n, "per_class": 1, "normals": [n], "fmt": {}})
    # M10: the same operation repeated in one process under a low open-file limit (vlib/endurance.py)
    return list(workload.add_reach_store(cs)) + [endurance.case("slice3d", tier, seed)]


def setup():
    pools.install()
    poison.install()


def judge(m, vol, n, pos, L, fl, o1, o2, ref):
    """differences for one slice; returns (problems, n decided pixels, n undecided)"""
    probs = []
    cx, cy = ref["cx"], ref["cy"]
    names = m.names
    want = list(names) if fl == ["all"] else [f for f in fl if f != "grid_level"]
    with_grid = "grid_level" in fl or fl == ["all"]
    dec = ref["decided"]
    shapeT = (m.grid_sizes[L][cy], m.grid_sizes[L][cx])
    lo0 = m.geo_low[n] + m.dx[0][n] / 2
    hi0 = m.geo_high[n] - m.dx[0][n] / 2
    eps_n = 1e-9 * m.dx[L][n] + 8 * 2.220446049250313e-16 * max(abs(m.geo_low[n]), abs(m.geo_high[n]))     # scale aware
    inside0 = lo0 - eps_n <= pos <= hi0 + eps_n
    for nm in want:
        if nm not in o1:
            probs.append(f"field {nm} missing"); continue
        a = np.asarray(o1[nm])
        if a.shape != shapeT:
            probs.append(f"field {nm}: shape {a.shape}, expected {shapeT}"); continue
        if not refparse.biteq(a, o2[nm]):
            probs.append(f"field {nm}: pixels depend on uninitialised memory (runs with different "
                         f"poison differ at {int(np.sum(a.view(np.uint64) != np.ascontiguousarray(o2[nm]).view(np.uint64)))} pixels)")
            continue
        if poison.has_poison(a, np.nan) and not np.isnan(ref["value"][..., names.index(nm)][dec]).any():
            # fields holding infinities can legitimately give NaN (inf - inf) where the two brackets come
            # from different levels (undecided pixels): only decided pixels are looked at for them
            isn = np.isnan(a) & dec.T if nm.startswith("ci") else np.isnan(a)
            if isn.any():
                probs.append(f"field {nm}: {int(isn.sum())} pixels hold the poison value (never written)")
                continue
        e = ref["value"][..., names.index(nm)].T
        d = dec.T
        scale = slicemodel.field_scale(m, names.index(nm))
        bad = d & slicemodel.differs(a, e, slicemodel.value_tol(m, L, n) * scale)
        if bad.any():
            j, i = np.argwhere(bad)[0]
            probs.append(f"field {nm}: {int(bad.sum())} decided pixels differ from the interpolation of "
                         f"the bracketing samples (e.g. pixel ({i},{j}): got {a[j, i]!r}, expected {e[j, i]!r}, "
                         f"level {int(ref['S'].T[j, i])})")
        if nm == "a" + "xyz"[n] and inside0:
            aa, cc = m.coef[n]
            expv = aa + cc * pos
            badp = ~(np.abs(a - expv) <= slicemodel.value_tol(m, L, n) * max(1.0, abs(expv)))
            if badp.any():
                j, i = np.argwhere(badp)[0]
                probs.append(f"field {nm} (affine along the normal): {int(badp.sum())} pixels are not "
                             f"{expv!r} (e.g. pixel ({i},{j}) = {a[j, i]!r})")
    if with_grid:
        gl = np.asarray(o1.get("grid_level"))
        if gl.shape != shapeT:
            probs.append(f"grid_level shape {gl.shape}")
        else:
            if not refparse.biteq(gl, o2["grid_level"]):
                probs.append("grid_level depends on uninitialised memory (poison runs differ)")
            else:
                okl = np.zeros(shapeT, dtype=bool)
                for lv in range(L + 1):
                    okl |= (gl == lv) & ref["contains"][lv].T
                if not okl.all():
                    j, i = np.argwhere(~okl)[0]
                    probs.append(f"grid_level: {int((~okl).sum())} pixels report a level that has no box "
                                 f"there (e.g. pixel ({i},{j}) = {gl[j, i]!r})")
    for ax, d in (("x", cx), ("y", cy)):
        exp = m.geo_low[d] + (np.arange(m.grid_sizes[L][d]) + 0.5) * m.dx[L][d]
        g = np.asarray(o1.get(ax))
        if g.shape != exp.shape or not np.allclose(g, exp, rtol=1e-12, atol=1e-9 * float(np.min(np.abs(np.diff(exp)))) if exp.size > 1 else 1e-300):
            probs.append(f"{ax} coordinates are not the cell centres of the level-{L} grid")
    return probs, int(dec.sum()), int((~dec).sum())


def run_case(case, work, rec):
    if case.get("kind") == "endurance":
        return endurance.run_case(case, work, rec)
    from amr_kitchen.mandoline import Mandoline
    rng = random.Random(case["sel_seed"])
    m, path = workload.build(case, work)
    digest = common.sha(case["gen"])
    rec.sample({"plotfile": gen.describe(m)})
    finest = m.nlevels - 1
    vols = {}
    for n in case.get("normals", [0, 1, 2]):
        for limit in ([None] if finest == 0 else [None, rng.randrange(finest)]):
            L = finest if limit is None else limit
            if L not in vols:
                vols[L] = slicemodel.LevelVolumes(m, L)
            vol = vols[L]
            plist = slicemodel.positions(m, L, n, rng, case["per_class"])
            for cls, pos in plist:
                if slicemodel.too_close_to_centre(m, L, n, pos):
                    rec.skip("position within the snapping tolerance of a cell centre")
                    continue
                fl = rng.choice([["all"], ["a" + "xyz"[n], "tag" + "xyz"[n], "rnd", "grid_level"],
                                 ["rnd"], ["a" + "xyz"[n], "grid_level"], ["tagx", "ay"], ["near", "rnd"], ["trc"], ["trc", "a" + "xyz"[n]],
                                 ["grid_level", "rnd"], ["tag" + "xyz"[n], "grid_level", "a" + "xyz"[n]],
                                 ["grid_level", "near", "ax"], ["ci" + "xyz"[n], "rnd"]])
                serial = rng.random() < 0.5
                key = (digest, n, pos, limit, serial, tuple(fl))
                descr = f"normal={'xyz'[n]} pos={pos!r} ({cls}) limit_level={limit} serial={serial} fields={fl}"
                outs, err = [], None
                for pv in (np.nan, 1e30):
                    poison.set_poison(pv)
                    pools.CTL.reset(mode="inproc", seed=rng.randrange(10 ** 6))
                    try:
                        # a single field may be named by a plain string (the form used outside the entry point)
                        farg = fl[0] if len(fl) == 1 and fl[0] != "all" and serial else list(fl)
                        if isinstance(farg, str):
                            rec.count("field_given_as_string")
                        md = Mandoline(path, fields=farg, limit_level=limit, serial=serial, verbose=0)
                        outs.append(md.slice(normal=n, pos=pos, fformat="return"))
                    except Exception as e:
                        err = f"{type(e).__name__}: {str(e)[:200]}"
                        break
                if err:
                    rec.violation(f"in-domain slice raised {err.split(':')[0]}: {descr}", key=key,
                                  witness={"config": descr, "exc": err})
                    continue
                rec.count("slices"); rec.count("class:" + cls.split(":")[0])
                if not serial:
                    rec.count("parallel")
                ref = slicemodel.reference(vol, n, pos)
                probs, nd, nu = judge(m, vol, n, pos, L, fl, outs[0], outs[1], ref)
                rec.count("pixels_decided", nd); rec.count("pixels_undecided", nu)
                if probs:
                    rec.violation(f"slice is not the interpolation of the stored samples ({probs[0][:140]}): {descr}",
                                  key=key, witness={"config": descr, "differences": probs[:4]})
                else:
                    rec.ok(key, L >= 1 and not cls.startswith("incell") and not cls.startswith("random"))
        # default position = domain centre, equals the explicit slice there
        poison.set_poison(np.nan)
        pools.CTL.reset(mode="inproc", seed=1)
        centre = m.geo_low[n] + (m.geo_high[n] - m.geo_low[n]) / 2
        key = (digest, n, "default")
        try:
            o_def = Mandoline(path, fields=["rnd"], serial=True, verbose=0).slice(normal=n, fformat="return")
            o_exp = Mandoline(path, fields=["rnd"], serial=True, verbose=0).slice(normal=n, pos=centre, fformat="return")
            rec.count("default_position")
            if abs(float(o_def["slice_pos"]) - centre) > 1e-9 * m.dx[0][n] + 8 * 2.220446049250313e-16 * abs(centre):
                rec.violation(f"default position is {o_def['slice_pos']!r}, the domain centre is {centre!r} (normal {'xyz'[n]})",
                              key=key, witness={"geo_low": m.geo_low[n], "geo_high": m.geo_high[n]})
            elif not refparse.biteq(o_def["rnd"], o_exp["rnd"]):
                rec.violation("default-position slice differs from the explicit slice at the domain centre", key=key)
            else:
                rec.ok(key, any(v != 0 for v in m.geo_low))
        except Exception as e:
            rec.violation(f"default-position slice raised {type(e).__name__} (normal {'xyz'[n]})", key=key,
                          witness={"exc": repr(e)[:300], "geo_low": m.geo_low[n], "geo_high": m.geo_high[n]})
        # positions outside the domain are refused
        ext = m.geo_high[n] - m.geo_low[n]
        for pos in (m.geo_low[n] - 0.01 * ext, m.geo_high[n] + 0.01 * ext, m.geo_low[n] - 5 * ext, m.geo_high[n] + 5 * ext):
            key = (digest, n, "outside", pos)
            try:
                Mandoline(path, fields=["rnd"], serial=True, verbose=0).slice(normal=n, pos=pos, fformat="return")
                rec.violation(f"position outside the domain was answered: normal={'xyz'[n]} pos={pos!r} "
                              f"domain [{m.geo_low[n]}, {m.geo_high[n]}]", key=key)
            except Exception:
                rec.count("out_of_domain_refused")
                rec.ok(key, False)
    # the mandoline entry point (array format) must save what the API returns for the same request
    cli = common.repo_module("amr_kitchen.mandoline.cli")
    for n in case.get("normals", [0, 1, 2]):
        for _ in range(2):
            limit = rng.choice([None] + list(range(finest + 1)))
            pos = m.geo_low[n] + (m.geo_high[n] - m.geo_low[n]) * rng.random()
            fl = rng.choice([["rnd", "grid_level"], ["a" + "xyz"[n], "tagx"], ["all"]])
            serial = rng.random() < 0.5
            out = os.path.join(work, "cli_slice")
            args = ["mandoline", "-n", str(n), "--position=" + repr(pos), "-v"] + fl + ["-f", "array", "-o", out, "-V", "0"]
            if limit is not None:
                args += ["-L", str(limit)]
            if serial:
                args.append("-s")
            args.append(path)
            key = (digest, "cli", n, pos, limit, tuple(fl))
            poison.set_poison(np.nan)
            pools.CTL.reset(mode="inproc", seed=rng.randrange(10 ** 6))
            try:
                with common.argv(args):
                    cli.main()
                z = np.load(out + ".npz")
                api = Mandoline(path, fields=list(fl), limit_level=limit, serial=True, verbose=0).slice(
                    normal=n, pos=pos, fformat="return")
            except (Exception, SystemExit) as e:
                rec.violation(f"mandoline entry point raised {type(e).__name__}: {' '.join(args[1:-1])}", key=key,
                              witness={"argv": args[1:-1], "exc": repr(e)[:300]})
                continue
            rec.count("cli_runs")
            bad = [k for k in api if isinstance(api[k], np.ndarray) and (k not in z.files or not refparse.biteq(z[k], api[k]))]
            if bad or float(z["slice_pos"]) != float(api["slice_pos"]):
                rec.violation(f"mandoline entry point saved another slice than the API returns for the same request "
                              f"(differing: {bad[:4]}): {' '.join(args[1:-1])}", key=key, witness={"argv": args[1:-1]})
            else:
                rec.ok(key, finest >= 1)
    # one Mandoline instance reused for several explicit slices == fresh instances
    if 0 not in case.get("normals", [0]):
        return
    poison.set_poison(np.nan)
    md = Mandoline(path, fields=["rnd", "grid_level"], serial=True, verbose=0)
    held = []       # (returned array, copy taken at once): later slices must not change earlier results
    for _ in range(4):
        n = rng.randrange(3)
        pos = m.geo_low[n] + (m.geo_high[n] - m.geo_low[n]) * rng.random()
        if slicemodel.too_close_to_centre(m, finest, n, pos):
            continue
        key = (digest, "reuse", n, pos)
        try:
            a = md.slice(normal=n, pos=pos, fformat="return")
            b = Mandoline(path, fields=["rnd", "grid_level"], serial=True, verbose=0).slice(normal=n, pos=pos, fformat="return")
            rec.count("reuse")
            held.append((a["rnd"], np.array(a["rnd"], copy=True), n, pos))
            if refparse.biteq(a["rnd"], b["rnd"]) and refparse.biteq(a["grid_level"], b["grid_level"]):
                rec.ok(key, True)
            else:
                rec.violation(f"reused Mandoline instance gives another slice than a fresh one: normal={'xyz'[n]} pos={pos!r}", key=key)
        except Exception as e:
            rec.violation(f"reused Mandoline instance raised {type(e).__name__}: normal={'xyz'[n]} pos={pos!r}", key=key,
                          witness={"exc": repr(e)[:300]})
    for arr, cp, n, pos in held:
        if not refparse.biteq(arr, cp):
            rec.violation(f"a slice returned earlier changed while later slices were taken with the same instance: "
                          f"normal={'xyz'[n]} pos={pos!r}", key=(digest, "alias", n, pos))
