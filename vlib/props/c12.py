"""C12 — results do not depend on worker count, task order or serial/parallel mode.
M1: every pool user is run under a schedule controller: a recording run learns the pool calls,
then every execution order of every call with <=4 tasks is replayed (others pinned; seeded
permutations beyond), in in-process and fork-per-task isolation; one canonical digest per run
(output tree bytes + returned values) must be unique per (tool, input) and equal the serial one.
M2: the same scenarios in subprocesses under real multiprocessing / pathos pools with forced
worker counts and injected delays, plus multi-invocation histories in one process."""
import os, sys, json, random, itertools, subprocess, shutil
import numpy as np
from .. import common, pools, scenarios, endurance

ID = "C12"
LEVEL = "exploration"
RULE = ("cases = 16 pool-user scenarios (reader selections, level iteration, taste, colander, "
        "combine in 3 layout relations, chef, mandoline 3D/2D/plotfile, pestle, whip, chk2plt) x "
        "generated inputs; M1: all n! execution orders of every pool call with 2-4 tasks (others "
        "pinned), seeded permutations beyond, in-process and fork-per-task isolation, serial mode "
        "where one exists; M2: real pools with workers in {1,2,3,5,16} and injected delays in "
        "subprocesses, and histories of several invocations in one process. one evaluation = one "
        "run whose canonical digest (output tree + returned values, bit for bit) is "
        "compared with the reference run. distinct = hash(tool, input, schedule|workers); "
        "non-trivial = a non-identity order on a call with >=2 tasks, or a real pool with >=2 "
        "workers")
ASSUMPTIONS = ["tasks are atomic (no tool makes two tasks write one file; the task log would show it)",
               "exhaustiveness is per pool call with the other calls pinned",
               ".npz compared member-wise (zip entries carry wall-clock timestamps)",
               "the pestle integral is compared bit for bit: the tool sums in submission order, so its value is "
               "schedule- and worker-count-independent to the last bit"]
REQUIRED_OBS = {"endurance_calls": 100, "m1_runs": 300, "set:m1_schedules": 150, "set:tools_m1": 16, "m2_runs": 20,
                "set:tools_m2": 16, "histories": 3, "serial_compared": 4}
CHAIN = {"quick": 0, "thorough": 0}     # has its own multi-invocation histories
TIMEOUT = {"quick": 900, "thorough": 3600}


def cases(tier, seed):
    cs = []
    ninputs = 2 if tier == "quick" else 20
    for sc in scenarios.all_scenarios():
        for k in range(ninputs):
            cs.append({"kind": "m1", "scenario": sc.name, "seed": seed * 100 + k + 11,
                       "extra": 6 if tier == "quick" else 12})
    workers = [1, 3, 16] if tier == "quick" else [1, 2, 3, 5, 16]
    for sc in scenarios.all_scenarios():
        for k in range(1 if tier == "quick" else 4):
            cs.append({"kind": "m2", "scenario": sc.name, "seed": seed * 100 + k + 11, "workers": workers,
                       "nstart": 1 if tier == "quick" else 2})
    hists = [
        [{"tool": "chef_sdi", "bf": 2, "pressure": 1.0}, {"tool": "chef_sdi", "bf": 2, "pressure": 5.0}],
        [{"tool": "chef_sdi", "bf": 2, "pressure": 1.0}, {"tool": "chef_sdi", "bf": 4, "pressure": 1.0}],
        [{"tool": "chef_user", "dseed": 0}, {"tool": "chef_sdi", "bf": 2, "pressure": 2.0}, {"tool": "chef_user", "dseed": 3}],
        [{"tool": "mandoline", "normal": 0, "frac": 0.3}, {"tool": "mandoline", "normal": 2, "frac": 0.7},
         {"tool": "mandoline", "normal": 0, "frac": 0.3}],
        [{"tool": "chk2plt", "dseed": 0}, {"tool": "chk2plt", "dseed": 1}],
    ]
    for hi, h in enumerate(hists if tier == "thorough" else hists[:4]):
        cs.append({"kind": "hist", "history": h, "seed": seed * 100 + 7, "workers": 3 if hi % 2 else 2})
    # M10: the same operation repeated in one process under a low open-file limit (vlib/endurance.py)
    return list(cs) + [endurance.case("flatten2d", tier, seed), endurance.case("slice3d", tier, seed)]


def setup():
    pass     # M1 is installed per case (M2 cases run in subprocesses with real pools)


def same(ref, res):
    """compare two results {'digest','parts','scalar'}"""
    if ref.get("scalar") is not None or res.get("scalar") is not None:
        a, b = ref.get("scalar"), res.get("scalar")
        if a is None or b is None:
            return False
        return a == b and ref["parts"]["trees"] == res["parts"]["trees"]     # "the same" = the same bits
    return ref["digest"] == res["digest"]


def run_m1(case, work, rec):
    pools.install()
    sc = scenarios.by_name(case["scenario"])
    rng = random.Random(case["seed"])
    ctx = sc.prepare(os.path.join(work, "in"), case["seed"])
    rec.seen("tools_m1", sc.name)

    def one(tag, mode, plan, default, serial=False):
        out = os.path.join(work, "out_" + tag)
        if os.path.exists(out):
            shutil.rmtree(out)
        os.makedirs(out)
        pools.CTL.reset(mode=mode, plan=plan, default=default, seed=rng.randrange(10 ** 6))
        try:
            res = sc.run(ctx, out, serial=serial)
        except Exception as e:
            res = {"values": None, "paths": [], "error": f"{type(e).__name__}: {str(e)[:150]}"}
        dig, parts = scenarios.canonical(res)
        calls = [(c[0], c[1]) for c in pools.CTL.calls]
        log = pools.check_log()
        shutil.rmtree(out, ignore_errors=True)
        return {"digest": dig, "parts": parts, "scalar": res.get("scalar")}, calls, log

    ref, calls, log = one("ref", "inproc", {}, "identity")
    if ref["parts"]["error"]:
        rec.violation(f"{sc.name}: reference run raised {ref['parts']['error']}", key=(sc.name, case["seed"], "ref"))
        return
    if not any(n >= 2 for _, n in calls):
        rec.undecided(f"no pool call with >=2 tasks: {sc.name} calls={calls}")
        return
    rec.sample({"tool": sc.name, "seed": case["seed"], "pool_calls": calls})
    rec.count("pool_calls_recorded", len(calls))
    plans = []
    for ci, (fn, n) in enumerate(calls):
        if n < 2:
            continue
        if n <= 4:
            perms = list(itertools.permutations(range(n)))[1:]
        else:
            perms = [tuple(reversed(range(n)))] + [tuple(rng.sample(range(n), n)) for _ in range(4)]
        for p in perms:
            plans.append(({ci: p}, "identity", f"call{ci}:{fn}:{p}"))
    for k in range(case["extra"]):
        plans.append(({}, "shuffle", f"shuffle{k}"))
    plans.append(({}, "reverse", "reverse-all"))
    if len(plans) > 80:
        keep = plans[-(case["extra"] + 1):]
        plans = rng.sample(plans[:-(case["extra"] + 1)], 80 - len(keep)) + keep
    for pi, (plan, default, tag) in enumerate(plans):
        mode = "fork" if pi % 4 == 1 else "inproc"
        res, c2, log = one("s", mode, plan, default)
        rec.count("m1_runs")
        rec.seen("m1_schedules", (sc.name, case["seed"], tag))
        key = (sc.name, case["seed"], tag, mode)
        if [x for x in c2] != calls and not res["parts"]["error"]:
            rec.count("pool_calls_differ_between_schedules")     # observation only; the verdict is on the result
        if log:
            rec.violation(f"{sc.name}: task log: {log[0]} under schedule {tag}", key=key)
        elif same(ref, res):
            rec.ok(key, True)
        else:
            rec.violation(f"{sc.name}: result depends on the task schedule ({tag}, {mode} isolation)", key=key,
                          witness={"tool": sc.name, "schedule": tag, "isolation": mode, "reference": ref["parts"],
                                   "got": res["parts"], "scalars": [ref.get("scalar"), res.get("scalar")]})
    if sc.has_serial:
        res, _, _ = one("serial", "inproc", {}, "identity", serial=True)
        rec.count("serial_compared")
        key = (sc.name, case["seed"], "serial")
        if same(ref, res):
            rec.ok(key, True)
        else:
            rec.violation(f"{sc.name}: serial mode gives another result than parallel mode", key=key,
                          witness={"tool": sc.name, "parallel": ref["parts"], "serial": res["parts"]})


def sub(spec, timeout=600):
    env = dict(os.environ)
    env["PYTHONPATH"] = common.VERIF
    p = subprocess.run([common.PY, "-m", "vlib.realpool", json.dumps(spec)], capture_output=True, text=True,
                       timeout=timeout, cwd=common.VERIF, env=env)
    for line in p.stdout.split("\n"):
        if line.startswith("RESULT "):
            return json.loads(line[7:])
    return {"ok": False, "error": f"no result (exit {p.returncode}): {p.stderr[-400:]}"}


def run_m2(case, work, rec):
    name = case["scenario"]
    rec.seen("tools_m2", name)
    ref = None
    # worker counts under the platform's own start method, then the other start methods (spawn: macOS / Windows;
    # forkserver: Linux from Python 3.14): their workers re-import the modules instead of inheriting the parent
    runs = [(w, None) for w in case["workers"]] + [(2, "spawn"), (3, "forkserver")][:case.get("nstart", 2)]
    for wi, (w, start) in enumerate(runs):
        spec = {"scenario": name, "seed": case["seed"], "workers": w, "delay_seed": case["seed"] * 7 + wi,
                "work": os.path.join(work, f"w{w}{start or ''}")}
        if start:
            spec["start"] = start
            rec.seen("start_methods", start)
        r = sub(spec)
        rec.count("m2_runs")
        key = (name, case["seed"], "workers", w, start)
        if not r.get("ok"):
            rec.violation(f"{name}: run under a real pool with {w} workers{' (start method ' + start + ')' if start else ''} raised: {r.get('error')}", key=key,
                          witness={"trace": r.get("trace")})
            continue
        rec.count("m2_pool_tasks", r["stats"]["tasks"])
        if r["stats"]["pool_calls"] == 0:
            rec.undecided(f"real pool not reached: {name}")
            continue
        if ref is None:
            ref = r["result"]
            rec.ok(key, False)
        elif same(ref, r["result"]):
            rec.ok(key, w >= 2)
        else:
            rec.violation(f"{name}: result with {w} workers{' (start method ' + start + ')' if start else ''} differs from the result with {case['workers'][0]} worker(s)",
                          key=key, witness={"tool": name, "reference": ref["parts"], "got": r["result"]["parts"]})
        shutil.rmtree(spec["work"], ignore_errors=True)


def run_hist(case, work, rec):
    h = case["history"]
    spec = {"history": h, "seed": case["seed"], "workers": case["workers"], "delay_seed": 5, "work": os.path.join(work, "all")}
    r = sub(spec, timeout=900)
    rec.count("histories")
    key = ("hist", json.dumps(h))
    if not r.get("ok"):
        rec.violation(f"history of {len(h)} invocations in one process raised: {r.get('error')} (history {h})",
                      key=key, witness={"history": h, "trace": r.get("trace")})
        return
    alone = []
    for i, st in enumerate(h):
        # the same step alone in a fresh process (mandoline steps reuse one instance: replay the prefix
        # on a fresh instance is the definition there, so a single explicit step is the reference)
        ra = sub({"history": [st], "seed": case["seed"], "workers": 1, "delay_seed": 9, "work": os.path.join(work, f"alone{i}")})
        if not ra.get("ok"):
            rec.violation(f"history step alone raised: {ra.get('error')} (step {st})", key=key + (i,))
            return
        alone.append(ra["result"][0])
    bad = [i for i in range(len(h)) if r["result"][i] != alone[i]]
    if bad:
        i = bad[0]
        rec.violation(f"invocation {i + 1} of a history in one process ({h[i]}) differs from the same invocation "
                      f"done alone in a fresh process; earlier invocations: {h[:i]}", key=key,
                      witness={"history": h, "differing_steps": bad, "workers": case["workers"]})
    else:
        rec.ok(key, True)


def run_case(case, work, rec):
    if case.get("kind") == "endurance":
        return endurance.run_case(case, work, rec)
    if case["kind"] == "m1":
        run_m1(case, work, rec)
    elif case["kind"] == "m2":
        run_m2(case, work, rec)
    else:
        run_hist(case, work, rec)
