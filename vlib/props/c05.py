"""C05 — colander output holds exactly the kept fields and levels, bit for bit.
History + model: every strain() is compared with the pure selection on the in-memory model
(names, levels, geometry, boxes, per-box bits, restricted min/max rows) and must validate."""
import os, random
import numpy as np
from .. import common, gen, refparse, refmodel, workload, pools, endurance

ID = "C05"
LEVEL = "exploration"
RULE = ("cases = generated 2D/3D plotfiles (any layout, special payloads, format variants) x "
        "ordered variable selections ('all', singletons, permutations, subsets, unknown names "
        "interleaved) x every level limit, through the Colander API and the colander entry "
        "point; one evaluation = one strained plotfile compared with the model selection and "
        "validated by taste with box coordinates. distinct = hash(model, selection, limit); "
        "non-trivial = a field dropped or reordered, or a level dropped, or >=2 files / "
        "non-monotone layout at some level")
ASSUMPTIONS = ["generator/refparse trusted base", "pool shim M1 with shuffled schedules",
               "selections with duplicates or with no present name: only 'raise or taste-valid'"]
REQUIRED_OBS = {"endurance_calls": 100, "strained": 100, "strained_onto_existing_output": 20, "unusual_field_names": 4, "cli_runs": 5, "level_dropped": 10, "reordered": 10, "two_digit_to_one_digit": 10}
TIMEOUT = {"quick": 300, "thorough": 1500}


def cases(tier, seed):
    n = 48 if tier == "quick" else 4000
    cs = workload.reader_population(n, seed + 500, max_levels=3, max_fields=6)
    for i, c in enumerate(cs):
        c["sel_seed"] = seed * 23 + i
        c["nsel"] = 10 if tier == "quick" else 14
        if i % 4 in (0, 1):        # two-digit field counts in 2D and 3D (the count is part of every FAB header)
            c["gen"]["nfields"] = 10 + (i // 4) % 3
            c["gen"]["nlevels"] = min(c["gen"]["nlevels"], 2)
        if i % 8 == 4:             # a maximum whose text is longer than the text of every minimum of its level
            c["long_max"] = True
        if i % 8 in (2, 7):        # unusual but valid names (metacharacters beside their look-alikes, blanks, UTF-8)
            nf = c["gen"].pop("nfields", 4)
            c["gen"]["names"] = gen.odd_names(random.Random(seed * 37 + i), max(3, min(nf, 8)), blanks=True, nonascii=True)
            c["odd_names"] = True
    # scale: a box of more than a million cells, five fields (47 MB in one FAB), not at the start of its file
    for k in range(1 if tier == "quick" else 3):
        cs.append({"scale": "bigbox", "gen": dict(seed=seed * 3 + 5150 + k, nfields=5), "fmt": {}, "sel_seed": seed * 23 + 5150 + k, "nsel": 5})
    if tier == "thorough":
        for a in ("example_plt_2d", "example_plt_3d", "plt_eb_3d"):
            cs.append({"asset": a, "sel_seed": seed, "nsel": 3})
    # M10: the same operation repeated in one process under a low open-file limit (vlib/endurance.py)
    return list(cs) + [endurance.case("strain", tier, seed)]


_calls = {}


def setup():
    pools.install()
    C = common.repo_module("amr_kitchen.colander.colander")
    for name in ("parallel_strain_2d", "parallel_strain_3d"):
        orig = getattr(C, name, None)
        if orig is None:
            continue

        def mk(orig, name):
            def w(args):
                _calls[name] = _calls.get(name, 0) + 1
                return orig(args)
            w.__name__ = name
            w.__wrapped__ = orig
            return w
        setattr(C, name, mk(orig, name))


def taste_ok(path):
    from amr_kitchen.taste import Taster
    try:
        return bool(Taster(path, boxes_coordinates=True, nofail=True, verbose=0))
    except Exception:
        return False


def selections(names, rng, n):
    nf = len(names)
    sels = [["all"]]
    sels += [[nm] for nm in rng.sample(names, min(nf, 2))]
    perm = list(names); rng.shuffle(perm)
    sels.append(perm)
    sels.append(list(reversed(names)))
    for _ in range(n):
        k = rng.randint(1, nf)
        s = rng.sample(names, k)
        if rng.random() < 0.4:
            s.insert(rng.randrange(len(s) + 1), "not_a_field")
        if rng.random() < 0.2:
            s.insert(0, "zz_unknown")
        sels.append(s)
    out, seen = [], set()
    for s in sels:
        if tuple(s) not in seen:
            seen.add(tuple(s)); out.append(s)
    return out[:n]


def run_case(case, work, rec):
    if case.get("kind") == "endurance":
        return endurance.run_case(case, work, rec)
    from amr_kitchen.colander import Colander
    rng = random.Random(case["sel_seed"])
    if "asset" in case:
        path = os.path.join(common.REPO, "test_assets", case["asset"])
        full = refmodel.from_disk(path)
        digest = case["asset"]
        layout_nt = True
    else:
        m, path = workload.build(case, work)
        full = refmodel.from_model(m)
        digest = common.sha(case["gen"], case["fmt"])
        layout_nt = any(m.nfiles(lv) >= 2 or m.nonmonotone(lv) for lv in range(m.nlevels))
        rec.sample({"plotfile": gen.describe(m), "fmt": case["fmt"]})
        if case.get("odd_names"):
            rec.count("unusual_field_names")
    names = full.names
    finest = len(full.levels) - 1
    if len(set(names)) != len(names):
        return
    sels = selections(names, rng, case["nsel"])
    n0 = dict(_calls)
    prev_out = None
    nrun = 0
    for si, sel in enumerate(sels):
        for limit in ([None] + list(range(finest + 1)) if si < 4 else [rng.choice([None] + list(range(finest + 1)))]):
            out = workload.out_path(work, f"out_{si}_{limit}", si + (limit or 0), rec)
            key = (digest, tuple(sel), limit)
            descr = f"variables={sel} limit_level={limit}"
            # the requested output may exist already: an empty directory prepared by the caller, or the result
            # of an earlier strain (another selection / limit) that is being replaced. The tool may refuse;
            # when it returns normally the requested path holds the plotfile the statement describes.
            nrun += 1
            existing = None
            if nrun % 5 == 2:
                os.makedirs(out)
                existing = "an empty directory"
            elif nrun % 5 == 4 and prev_out and os.path.isdir(prev_out):
                out = prev_out
                existing = "the output of an earlier strain"
            elif nrun % 5 == 0 and "asset" not in case:
                workload.stale_output(out, path)
                existing = "a stale copy of a deeper plotfile with more fields, and foreign files"
            if existing:
                descr += f" output={existing}"
                key = key + (existing,)
            use_cli = (si % 4 == 1)
            pools.CTL.reset(mode="inproc", seed=rng.randrange(10 ** 6))
            try:
                if use_cli:
                    cli = common.repo_module("amr_kitchen.colander.cli")
                    args = ["colander", path, "-v"] + sel + ["-o", out]
                    if limit is not None:
                        args += ["-l", str(limit)]
                    with common.argv(args):
                        cli.main()
                    rec.count("cli_runs")
                else:
                    Colander(plotfile=path, limit_level=limit, output=out, variables=sel).strain()
            except Exception as e:
                present = [v for v in sel if v in names]
                if not present and sel != ["all"]:
                    rec.ok(key, False)   # nothing to keep: refusing is fine
                elif existing and isinstance(e, (FileExistsError, IsADirectoryError)):
                    rec.count("existing_output_refused")
                    rec.ok(key, False)
                else:
                    rec.violation(f"straining raised {type(e).__name__}: {descr}", key=key,
                                  witness={"selection": sel, "limit": limit, "exc": repr(e)[:300]})
                continue
            rec.count("strained")
            if existing:
                rec.count("strained_onto_existing_output")
            prev_out = out
            kept = list(names) if sel == ["all"] else [v for v in sel if v in names]
            if not kept:
                if os.path.isdir(out) and not taste_ok(out):
                    pass    # statement silent on empty selections
                rec.ok(key, False)
                continue
            comps = [names.index(v) for v in kept]
            exp = refmodel.select(full, comps, limit=limit)
            probs = refmodel.compare(out, exp)
            if not probs and not taste_ok(out):
                probs.append("validation (with box coordinates) rejects the strained plotfile")
            L = finest if limit is None else limit
            if L < finest:
                rec.count("level_dropped")
            if comps != sorted(comps):
                rec.count("reordered")
            if len(names) >= 10 and len(comps) < 10:
                rec.count("two_digit_to_one_digit")
            if probs:
                rec.violation(f"strained plotfile differs from the selection ({probs[0][:120]}): {descr}",
                              key=key, witness={"selection": sel, "limit": limit, "differences": probs[:5]})
            else:
                nt = comps != list(range(len(names))) or L < finest or layout_nt
                rec.ok(key, nt)
    # a selection that names one variable twice (`-v temp density temp`): the statement does not say what the repeat
    # means - the field twice, or once - and either reading is accepted, as is a refusal; but a refusal that comes only
    # after the level directories were written (an output without Header left behind) is none of them
    if len(names) >= 2 and "asset" not in case:
        a, b = rng.sample(list(names), 2)
        sel = [a, b, a]
        out = os.path.join(work, "out_repeat")
        key = (digest, "repeat", tuple(sel))
        descr = f"variables={sel} (one variable named twice) limit_level=None"
        pools.CTL.reset(mode="inproc", seed=rng.randrange(10 ** 6))
        try:
            Colander(plotfile=path, limit_level=None, output=out, variables=sel).strain()
            raised = None
        except Exception as e:
            raised = e
        rec.count("selections_naming_a_variable_twice")
        if raised is not None:
            left = sorted(os.listdir(out)) if os.path.isdir(out) else []
            if left:
                rec.violation(f"a selection naming a variable twice was refused ({type(raised).__name__}) only after the output "
                              f"had been written: {left[:4]} left at the requested path: {descr}", key=key,
                              witness={"selection": sel, "exc": repr(raised)[:300], "left": left[:10]})
            else:
                rec.skip("a selection naming a variable twice was refused")
        else:
            ia, ib = names.index(a), names.index(b)
            readings = []
            for comps in ([ia, ib, ia], [ia, ib]):
                try:
                    readings.append(refmodel.compare(out, refmodel.select(full, comps, limit=None)))
                except Exception as e:
                    readings.append([f"not comparable: {type(e).__name__}: {e}"])
            if all(readings):
                rec.violation(f"strained plotfile is neither reading of a repeated selection ({readings[0][0][:100]}): {descr}",
                              key=key, witness={"selection": sel, "with_the_repeat": readings[0][:3], "without": readings[1][:3]})
            else:
                rec.ok(key, True)
    for k, v in _calls.items():
        rec.count("fn:" + k, v - n0.get(k, 0))
    for p in pools.check_log():
        rec.violation("pool log: " + p)
