"""C04 — taste rejects missing, truncated, shifted or inconsistent plotfile data.
Fault enumeration: every site of every corruption operator (M9) on generated plotfiles, singly
and in seeded pairs; each mutant is classified by the independent strict validator; those it
flags must be rejected by default validation (False without raising in nofail mode, an
exception in failing mode)."""
import os, random
from .. import common, gen, workload, pools, mutate, strict

ID = "C04"
LEVEL = "fault_enumeration"
RULE = ("cases = generated well-formed plotfiles x every single site of the corruption operators "
        "(delete/truncate/extend each binary file; insert/remove bytes in each box payload; "
        "rewrite each FAB header corner/component count; edit/delete/garble each level-header "
        "index line and FabOnDisk line; redirect offsets; delete a box consistently; shift each "
        "physical bound with box-coordinate validation) + seeded pairs; a mutant is in scope iff "
        "the independent strict validator flags it within the validated levels. one evaluation = "
        "one in-scope mutant judged in both modes. distinct = hash(model, mutation list); "
        "non-trivial = site at a non-first file / non-first box / level > 0 / last box of its file")
ASSUMPTIONS = ["strict.py is the specification of 'inconsistent' (lenient token grammar, see "
               "DESIGN 3.2)", "pool shim M1 in-process"]
# the share of cases also run under python -O (1 = all): the anchor code validates with assert statements
OPT_SUBSET = {"quick": 1, "thorough": 2}
REQUIRED_OBS = {"mutants_in_scope": 500, "set:operators_in_scope": 14, "pairs_in_scope": 20,
                "coords_mutants_in_scope": 20, "cli_mutants": 30, "compensating_pairs": 10}
CHAIN = {"quick": 2, "thorough": 10}
TIMEOUT = {"quick": 400, "thorough": 2400}


def cases(tier, seed):
    n = 10 if tier == "quick" else 200
    cs = workload.reader_population(n, seed + 400, payloads=("random", "special"), max_levels=3, max_fields=3)
    out = []
    K = 4
    for i, c in enumerate(cs):
        c["sel_seed"] = seed * 17 + i
        if i % 3 == 1:      # the last field is +0.0 everywhere: the bytes in front of every FAB header but the first are NUL
            c["zero_last"] = True
        c["gen"]["base_blocks"] = (1, 2) if c["gen"]["bf"] >= 4 else (2, 3)
        c["pairs"] = (30 if tier == "quick" else 60) // K
        for k in range(K):
            d = dict(c); d["chunk"] = [k, K]
            out.append(d)
    # scale: a domain 131072 cells long, so that box indices reach six digits (anything that compares
    # index ranges with a relative tolerance, or formats them with a fixed width, shows only here)
    for k in range(K):
        out.append({"gen": dict(seed=seed + 77, ndims=2, nlevels=1, nfields=1, base=[131072, 2], bf=2, maxsz=16384,
                                payload="random", nfiles=40, aniso=False),
                    "fmt": {}, "sel_seed": seed * 17 + 999, "pairs": 2, "chunk": [k, K], "long": True,
                    "only_ops": ["fabhdr", "idxline", "fod", "physbound", "truncate", "idxline_delete"]})
    if tier == "thorough":       # real AMReX output: a population the generator does not produce
        for a in ("plt1_Y", "plt2_F"):
            for k in range(8):
                out.append({"asset": a, "sel_seed": seed * 17 + k, "pairs": 6, "chunk": [k, 8], "sample": 60})
    return out


def setup():
    pools.install()


def verdicts(path, **kw):
    """(nofail outcome, fail outcome): outcome = 'good' | 'bad' | 'raised:<type>'"""
    from amr_kitchen.taste import Taster
    out = []
    # the verbosity is no part of the verdict: quiet, default and chatty runs must agree
    vb = (0, 0, None, 1, 2, 3)[int(common.sha(path, sorted(kw.items()) if kw else ""), 16) % 6]
    for nofail in (True, False):
        pools.CTL.reset(mode="inproc", seed=3)
        try:
            t = Taster(path, nofail=nofail, verbose=vb, **kw)
            out.append("good" if bool(t) else "bad")
        except Exception as e:
            out.append("raised:" + type(e).__name__)
    return out


def judge(rec, key, descr, nontriv, flags, v_nofail, v_fail, wit):
    if v_nofail == "bad" and v_fail.startswith("raised"):
        rec.ok(key, nontriv)
        return
    if v_nofail == "good" or v_fail == "good":
        what = "inconsistent plotfile reported good"
    elif v_nofail.startswith("raised"):
        what = f"non-failing mode raised ({v_nofail}) instead of evaluating false"
    else:
        what = f"failing mode did not raise ({v_fail})"
    wit = dict(wit); wit.update({"strict_flags": sorted(flags)[:4], "nofail": v_nofail, "fail": v_fail})
    rec.violation(f"{what}: {descr}", witness=wit, key=key, mech=wit.get("mech"))


def run_case(case, work, rec):
    rng = random.Random(case["sel_seed"] * 101 + case.get("chunk", [0])[0])
    if "asset" in case:
        import shutil
        path = os.path.join(work, case["asset"])
        shutil.copytree(os.path.join(common.REPO, "test_assets", case["asset"]), path)
        digest = case["asset"]
        if strict.flags(path, coords=True):
            raise RuntimeError("real asset flagged by strict: " + str(strict.flags(path, coords=True)))
        inf = mutate.info(path)
        finest = len(inf["levels"]) - 1
        sites = mutate.sites_c04(inf, coords=True)
        k, K = case["chunk"]
        sites = random.Random(7).sample(sites, len(sites))[k::K][:case["sample"]]
        case = dict(case); case["chunk"] = [0, 1]
    else:
        m, path = workload.build(case, work)
        digest = common.sha(case["gen"])
        rec.sample({"plotfile": gen.describe(m)})
        if strict.flags(path, coords=True):
            raise RuntimeError("generator output flagged by strict")
        inf = mutate.info(path)
        finest = m.nlevels - 1
        sites = mutate.sites_c04(inf, coords=True)
        if case.get("only_ops"):
            sites = [x for x in sites if x["op"] in case["only_ops"]]
            rec.count("six_digit_index_cases")
    dst = os.path.join(work, "mut")

    def nontrivial(mu):
        lv = mu["lv"]
        L = inf["levels"][lv]
        if lv > 0:
            return True
        if "file" in mu:
            return sorted(L["files"]).index(mu["file"]) > 0
        b = L["boxes"][mu["box"]]
        fl = L["files"][b["file"]]
        return mu["box"] > 0 and (fl[0] != mu["box"] or fl[-1] == mu["box"])

    def one(muts, pair=False):
        if not mutate.mutant(path, dst, inf, muts):
            rec.skip("site not applicable")
            return
        coords = any(mu["op"] == "physbound" for mu in muts)
        for limit in ([None] if finest == 0 or pair else [None, rng.randrange(finest + 1)]):
            fl = strict.flags(dst, limit=limit, coords=coords)
            if fl == {"global-header-unparseable"}:
                rec.skip("global header"); continue
            if not fl:
                rec.skip("equivalent mutant (strict: consistent)")
                continue
            kw = {"limit_level": limit}
            if coords:
                kw["boxes_coordinates"] = True
            vn, vf = verdicts(dst, **kw)
            rec.count("mutants_in_scope")
            if pair:
                rec.count("pairs_in_scope")
            if coords:
                rec.count("coords_mutants_in_scope")
            for mu in muts:
                rec.seen("operators_in_scope", mu["op"] + ":" + str(mu.get("how", mu.get("what", ""))))
            judge(rec, (digest, str(muts), limit), f"{muts} limit_level={limit}",
                  any(nontrivial(mu) for mu in muts), fl, vn, vf, {"mutations": muts, "limit": limit})
            # a sample through the entry point (failing mode is its default): it must not end normally
            if rng.random() < 0.04:
                args = ["taste", dst, "-v", "0"] + (["-bc"] if coords else []) + (["-l", str(limit)] if limit is not None else [])
                pools.CTL.reset(mode="inproc", seed=3)
                try:
                    with common.argv(args):
                        common.repo_module("amr_kitchen.taste.cli").main()
                    ended = "returned normally"
                except SystemExit as e:
                    ended = "returned normally" if e.code in (0, None) else "exit"
                except Exception:
                    ended = "raised"
                rec.count("cli_mutants")
                if ended == "returned normally":
                    rec.violation(f"taste entry point ended normally on an inconsistent plotfile: {muts} limit_level={limit}",
                                  key=(digest, "cli", str(muts), limit), witness={"mutations": muts, "strict_flags": sorted(fl)[:3]})
                else:
                    rec.ok((digest, "cli", str(muts), limit), True)

    k, K = case.get("chunk", [0, 1])
    for mu in sites[k::K]:
        one([mu])
    # pairs (seeded), not involving the coordinate operator (different option set)
    plain = [s for s in sites if s["op"] != "physbound"]
    for _ in range(case["pairs"]):
        a, b = rng.sample(plain, 2)
        # two edits of the same Cell_H line or file region do not compose by line number
        if a["lv"] == b["lv"] and ({a["op"], b["op"]} & {"idxline_delete", "fod_delete", "box_delete_consistent"}):
            continue
        if a["lv"] == b["lv"] and a.get("box") == b.get("box") and a.get("file") == b.get("file"):
            continue
        WHOLE, BYTES = {"truncate", "extend", "delete_file", "file_to_dir"}, {"insert", "remove", "fabhdr"}
        if a["lv"] == b["lv"] and ((a["op"] in WHOLE and b["op"] in WHOLE | BYTES) or (b["op"] in WHOLE and a["op"] in WHOLE | BYTES)):
            continue   # whole-file edits do not compose with other edits of the same level's files
        one([a, b], pair=True)
    # length-compensating pairs: k bytes removed from one box and k inserted in a later box of the SAME
    # binary file (the file length is unchanged, the boxes in between sit k bytes before their offsets)
    k_, K_ = case.get("chunk", [0, 1])
    multi = [(lv, fn, bl) for lv, L in enumerate(inf["levels"]) for fn, bl in sorted(L["files"].items()) if len(bl) >= 2]
    for lv, fn, bl in multi[k_::K_][:6]:
        i = rng.randrange(len(bl) - 1)
        j = rng.randrange(i + 1, len(bl))
        for nbytes in (8, 3):
            if inf["levels"][lv]["boxes"][bl[i]]["plen"] > nbytes:
                rec.count("compensating_pairs")
                one([{"op": "remove", "lv": lv, "box": bl[i], "n": nbytes}, {"op": "insert", "lv": lv, "box": bl[j], "n": nbytes}], pair=True)
