"""C11 — chef writes recipe(box) under the right names with true min/max.
History + model: every cook() output is parsed independently; components are matched by name:
new names = the recipe evaluated on the model box (user recipes bit-equal; built-ins against an
independent cell-by-cell Cantera evaluation), kept names bit-identical to the input, level
header min/max rows = extrema of the written data; output must validate."""
import os, shutil, random
import numpy as np
from .. import common, gen, refparse, refmodel, workload, pools, endurance

ID = "C11"
LEVEL = "exploration"
RULE = ("cases = generated 3D plotfiles (any layout) x recipes {user 2-arg one-component, 2-arg "
        "multi-component, 3-arg with SolutionArray (one- and multi-component); as .py path and as callable; built-in "
        "HRR/ENT/SRi/SDi/RRi on thermochemical plotfiles with drm19} x kept-field lists (none, "
        "one, several, unknown names, temp/Y kept with all-zero cells present) x {serial, "
        "parallel (pathos shim: in-process and fork+dill isolation)}; one evaluation = one cook "
        "compared component-by-name with the model and validated by taste. distinct = "
        "hash(model, recipe, kept, mode); non-trivial = kept list non-empty or multi-component "
        "or non-monotone layout or parallel")
ASSUMPTIONS = ["Cantera is trusted; built-ins compared at rtol 1e-9 against a flat SolutionArray",
               "cells whose temp and mass fractions are all zero have no defined state: new "
               "fields are not judged there (kept fields and min/max rows are)",
               "pathos pool replaced by the M1 shim here; real pathos pools are driven by C12"]
REQUIRED_OBS = {"endurance_calls": 100, "cooked": 60, "recipe:user2": 10, "recipe:user2multi": 10, "recipe:user3": 2, "recipe:user3multi": 2, "species_all": 1,
                "recipe:HRR": 2, "recipe:ENT": 2, "recipe:SRi": 2, "recipe:SDi": 2, "recipe:RRi": 2,
                "kept_nonempty": 20, "parallel": 20, "callable": 5, "cli_runs": 10}
TIMEOUT = {"quick": 600, "thorough": 2400}

MECH = os.path.join(common.REPO, "test_assets", "drm19.yaml")

USER_RECIPES = {
    "user2": ('def recipe(fi, arr):\n    """sq"""\n    return arr[..., fi["f0"]] ** 2 + 1.0\n', ["sq"]),
    "user2multi": ('import numpy as np\ndef recipe(fi, arr):\n    """u_new v_new"""\n'
                   '    return np.stack([arr[..., fi["f0"]] * 2.0, arr[..., fi["f1"]] - arr[..., fi["f0"]]], axis=-1)\n',
                   ["u_new", "v_new"]),
    "user3": ('def recipe(fi, arr, sol):\n    """rho_ct"""\n    return sol.density_mass\n', ["rho_ct"]),
    "user3multi": ('import numpy as np\ndef recipe(fi, arr, sol):\n    """rho_ct cp_ct t_in"""\n'
                   '    return np.stack([sol.density_mass, sol.cp_mass, arr[..., fi["temp"]] * 1.0], axis=-1)\n',
                   ["rho_ct", "cp_ct", "t_in"]),
    # recipes whose result is not float64 (a flag, a bin index, a single-precision value, the index of the
    # dominant species): the written FAB announces 8-byte reals whatever the recipe returns
    "user2flag": ('def recipe(fi, arr):\n    """hot"""\n    return arr[..., fi["f0"]] > 0.5\n', ["hot"]),
    "user2bin": ('import numpy as np\ndef recipe(fi, arr):\n    """bin"""\n'
                 '    return np.floor(arr[..., fi["f0"]] * 10.0).astype(int)\n', ["bin"]),
    "user2single": ('import numpy as np\ndef recipe(fi, arr):\n    """f0_sp twice_sp"""\n'
                    '    return np.stack([arr[..., fi["f0"]], arr[..., fi["f0"]] * 2.0], axis=-1).astype(np.float32)\n',
                    ["f0_sp", "twice_sp"]),
    "user3dominant": ('import numpy as np\ndef recipe(fi, arr, sol):\n    """dominant"""\n'
                      '    return np.argmax(sol.X, axis=-1)\n', ["dominant"]),
}
OTHER_DTYPE = ("user2flag", "user2bin", "user2single", "user3dominant")


def cases(tier, seed):
    rng = random.Random(seed + 1100)
    cs = []
    n_user = 14 if tier == "quick" else 250
    n_thermo = 4 if tier == "quick" else 40
    for i in range(n_user):
        bf = rng.choice([2, 4, 4])
        g = dict(seed=rng.randrange(10 ** 9), ndims=3, nlevels=1 + i % 3, bf=bf,
                 names=["f0", "f1", "f2", "f3"][:rng.randint(2, 4)],
                 base_blocks=(1, 2) if bf >= 4 else (2, 3), payload="random")
        c = {"kind": "user", "gen": g, "sel_seed": seed * 37 + i}
        if i % 7 == 3:      # binary files kept in a store and linked into the level directories (every other: levels too)
            c["store"] = ["files", "files+levels"][(i // 7) % 2]
        if i % 7 == 5:      # reached through `<symlinked directory>/../plt00020`
            c["reach"] = True
        if i % 7 == 6:      # level directories under another prefix than the default
            c["level_prefix"] = ["Lev_", "amr_level_"][(i // 7) % 2]
        if i % 7 == 1:      # file numbers of five and six digits at one level
            g["file_id_base"] = "mixed"
        cs.append(c)
    # scale: 64**3 boxes (every cooked box is larger than 4 MiB)
    for k in range(1 if tier == "quick" else 3):
        cs.append({"kind": "user", "scale": "coarse64", "gen": dict(seed=seed * 19 + 1111 + k, names=["f0", "f1", "f2"], payload="random"),
                   "sel_seed": seed * 37 + 1111 + k})
    for i in range(n_thermo):
        g = dict(seed=rng.randrange(10 ** 9), ndims=3, nlevels=1 + i % 2, bf=2, base_blocks=(2, 3),
                 maxsz=4, payload="thermo_trace" if i % 4 == 2 else "thermo")      # every fourth: an almost uniform mixture
        cs.append({"kind": "thermo", "gen": g, "sel_seed": seed * 41 + i, **({"store": "files"} if i % 4 == 1 else {})})
    if tier == "thorough":      # an OUTPUT binary file larger than 2 GiB (a many-component recipe): 2 GB written, ~30 s
        cs.append({"kind": "huge_output", "sel_seed": seed * 43})
    # M10: the same operation repeated in one process under a low open-file limit (vlib/endurance.py)
    return cs + [endurance.case("cook", tier, seed)]


def recipe_path(work, kind):
    """every user recipe file is called recipe.py, each in its own directory: loading by module name
    instead of by path would hand a later cook an earlier file's function"""
    os.makedirs(os.path.join(work, "recipes_" + kind), exist_ok=True)
    return os.path.join(work, "recipes_" + kind, "recipe.py")


def setup():
    pools.install()


def taste_ok(path):
    from amr_kitchen.taste import Taster
    try:
        return bool(Taster(path, boxes_coordinates=True, nofail=True, verbose=0))
    except Exception:
        return False


def species():
    import cantera as ct
    return ct.Solution(MECH).species_names


def ref_state(arr, names, P):
    """flat SolutionArray at each cell's T, P, Y; mask of cells with a defined state"""
    import cantera as ct
    gas = ct.Solution(MECH)
    sp = gas.species_names
    ys = [names.index(f"Y({s})") for s in sp]
    T = arr[..., names.index("temp")].reshape(-1).copy()
    Y = arr[..., ys].reshape(-1, len(sp)).copy()
    undefined = np.isclose(T, 0) | np.isclose(Y.sum(axis=1), 0)
    T[undefined] = 300.0
    Y[undefined, :] = 0.0
    Y[undefined, gas.species_index("N2")] = 1.0
    sa = ct.SolutionArray(gas, len(T))
    sa.TPY = T, P * ct.one_atm * np.ones(len(T)), Y
    return gas, sa, undefined.reshape(arr.shape[:-1])


def expected_new(kind, arr, names, P, sel):
    """(list of (name, array or None), undefined mask) for the recipe on one box"""
    shp = arr.shape[:-1]
    if kind == "user2":
        return [("sq", arr[..., names.index("f0")] ** 2 + 1.0)], None
    if kind == "user2multi":
        return [("u_new", arr[..., names.index("f0")] * 2.0),
                ("v_new", arr[..., names.index("f1")] - arr[..., names.index("f0")])], None
    if kind == "user2flag":
        return [("hot", (arr[..., names.index("f0")] > 0.5).astype(np.float64))], None
    if kind == "user2bin":
        return [("bin", np.floor(arr[..., names.index("f0")] * 10.0))], None
    if kind == "user2single":
        f = arr[..., names.index("f0")]
        return [("f0_sp", f.astype(np.float32).astype(np.float64)), ("twice_sp", (f * 2.0).astype(np.float32).astype(np.float64))], None
    gas, sa, und = ref_state(arr, names, P)
    if kind == "user3dominant":
        return [("dominant", np.argmax(sa.X, axis=-1).reshape(shp).astype(np.float64))], und
    if kind == "user3":
        return [("rho_ct", sa.density_mass.reshape(shp))], und
    if kind == "user3multi":
        return [("rho_ct", sa.density_mass.reshape(shp)), ("cp_ct", sa.cp_mass.reshape(shp)),
                ("t_in", arr[..., names.index("temp")] * 1.0)], und
    if kind == "HRR":
        return [("HeatRelease", sa.heat_release_rate.reshape(shp))], und
    if kind == "ENT":
        return [("Enthalpy", sa.enthalpy_mass.reshape(shp))], und
    if kind == "SRi":
        v = sa.net_production_rates
        return [(f"IRm({s})", v[:, gas.species_index(s)].reshape(shp)) for s in sel], und
    if kind == "SDi":
        v = sa.mix_diff_coeffs_mass
        return [(f"DI({s})", v[:, gas.species_index(s)].reshape(shp)) for s in sel], und
    if kind == "RRi":
        v = sa.net_rates_of_progress
        return [(f"R{r}", v[:, r].reshape(shp)) for r in sel], und
    raise ValueError(kind)


def judge(out, m, names, kind, kept, P, sel):
    """list of differences"""
    probs = []
    try:
        r = refparse.parse(out)
    except Exception as e:
        return [f"output does not parse as a plotfile: {type(e).__name__}: {e}"]
    onames = r["names"]
    if len(set(onames)) != len(onames):
        probs.append(f"duplicate output names {onames}")
        return probs
    if r["finest"] != m.nlevels - 1 or r["time"] != m.time or r["geo_low"] != m.geo_low or \
            r["geo_high"] != m.geo_high or r["dx"] != m.dx or r["grid_sizes"] != m.grid_sizes:
        probs.append("mesh/time of the output differ from the input")
        return probs
    first = True
    for lv in range(m.nlevels):
        lev = r["levels"][lv]
        want = {b.key(): bi for bi, b in enumerate(m.boxes[lv])}
        got = {(tuple(lo), tuple(hi)): bi for bi, (lo, hi) in enumerate(lev["idx"])}
        if set(want) != set(got) or len(lev["idx"]) != len(m.boxes[lv]):
            probs.append(f"level {lv}: boxes differ from the input")
            continue
        for k, bi in want.items():
            ob = got[k]
            arr_in = m.data[lv][bi]
            d = lev["data"][ob]
            if d["hlo"] != list(k[0]) or d["hhi"] != list(k[1]):
                probs.append(f"level {lv} box {k}: FAB header names another box")
                continue
            arr_out = d["arr"]
            if lev["phys"][ob] != m.phys_box(lv, bi):
                probs.append(f"level {lv} box {k}: physical bounds differ")
            new, und = expected_new(kind, arr_in, names, P, sel)
            expn = [n for n, _ in new] + kept
            if first:
                first = False
                if sorted(onames) != sorted(expn):
                    probs.append(f"output names {onames} != expected set {expn}")
                    return probs
            if arr_out.shape[-1] != len(onames):
                probs.append(f"level {lv} box {k}: {arr_out.shape[-1]} components written for {len(onames)} names")
                continue
            for n, e in new:
                a = arr_out[..., onames.index(n)]
                if und is None:
                    if not refparse.biteq(a, e):
                        probs.append(f"level {lv} box {k}: new field {n} is not the recipe on the box "
                                     f"({refmodel._ncells_diff(a, e)} of {a.size} cells)")
                else:
                    ok = np.isclose(a, e, rtol=1e-9, atol=1e-9 * float(np.max(np.abs(e[~und])) if (~und).any() else 0)) | und
                    if not ok.all():
                        probs.append(f"level {lv} box {k}: new field {n} differs from Cantera at "
                                     f"{int((~ok).sum())} cells with a defined state")
            for n in kept:
                a = arr_out[..., onames.index(n)]
                e = arr_in[..., names.index(n)]
                if not refparse.biteq(a, e):
                    probs.append(f"level {lv} box {k}: kept field {n} differs from the input "
                                 f"({refmodel._ncells_diff(a, e)} of {a.size} cells)")
            # min/max rows = extrema of the written data
            if lev["mins"] is None or ob >= len(lev["mins"]) or len(lev["mins"][ob]) != len(onames):
                probs.append(f"level {lv}: min/max tables missing or mis-shaped")
            else:
                with np.errstate(all="ignore"):
                    emin = [float(np.min(arr_out[..., c])) for c in range(len(onames))]
                    emax = [float(np.max(arr_out[..., c])) for c in range(len(onames))]
                if not all(refmodel._feq(x, y) for x, y in zip(lev["mins"][ob], emin)) or \
                        not all(refmodel._feq(x, y) for x, y in zip(lev["maxs"][ob], emax)):
                    probs.append(f"level {lv} box {k}: min/max rows are not the extrema of the written data")
            if len(probs) > 8:
                return probs
    if not probs:
        probs += ["format: " + x for x in refmodel.conform(out)]
    return probs


def run_huge_output(case, work, rec):
    """17 boxes in one binary file, a 255-component recipe with one kept field: the cooked file is larger
    than 2 GiB and its last boxes start beyond byte 2**31 - every box must be found at the offset the
    output level header records, with its kept field bit-identical and its last component = recipe"""
    from amr_kitchen.chef import Chef
    nprng = np.random.default_rng(case["sel_seed"])
    B = gen.Box
    m = gen.gen_model(seed=case["sel_seed"], ndims=3, nlevels=1, names=["phi", "psi"], base=[64, 64, 258], bf=2,
                      maxsz=258, aniso=False, payload="random", nfiles=1)
    m.boxes[0] = [B((0, 0, 16 * k), (63, 63, 16 * k + 15)) for k in range(16)] + [B((0, 0, 256), (63, 63, 257))]
    m.data[0] = [np.asfortranarray(nprng.standard_normal(b.shape + (2,))) for b in m.boxes[0]]
    m.layout[0] = {"file_of": [0] * 17, "write_order": list(range(17))}
    path = os.path.join(work, "plt_in")
    gen.write_plotfile(m, path)
    NC = 255

    def recipe(fi, arr):
        """c0 c1 c2 c3 c4 c5 c6 c7 c8 c9 c10 c11 c12 c13 c14 c15 c16 c17 c18 c19 c20 c21 c22 c23 c24 c25 c26 c27 c28 c29 c30 c31 c32 c33 c34 c35 c36 c37 c38 c39 c40 c41 c42 c43 c44 c45 c46 c47 c48 c49 c50 c51 c52 c53 c54 c55 c56 c57 c58 c59 c60 c61 c62 c63 c64 c65 c66 c67 c68 c69 c70 c71 c72 c73 c74 c75 c76 c77 c78 c79 c80 c81 c82 c83 c84 c85 c86 c87 c88 c89 c90 c91 c92 c93 c94 c95 c96 c97 c98 c99 c100 c101 c102 c103 c104 c105 c106 c107 c108 c109 c110 c111 c112 c113 c114 c115 c116 c117 c118 c119 c120 c121 c122 c123 c124 c125 c126 c127 c128 c129 c130 c131 c132 c133 c134 c135 c136 c137 c138 c139 c140 c141 c142 c143 c144 c145 c146 c147 c148 c149 c150 c151 c152 c153 c154 c155 c156 c157 c158 c159 c160 c161 c162 c163 c164 c165 c166 c167 c168 c169 c170 c171 c172 c173 c174 c175 c176 c177 c178 c179 c180 c181 c182 c183 c184 c185 c186 c187 c188 c189 c190 c191 c192 c193 c194 c195 c196 c197 c198 c199 c200 c201 c202 c203 c204 c205 c206 c207 c208 c209 c210 c211 c212 c213 c214 c215 c216 c217 c218 c219 c220 c221 c222 c223 c224 c225 c226 c227 c228 c229 c230 c231 c232 c233 c234 c235 c236 c237 c238 c239 c240 c241 c242 c243 c244 c245 c246 c247 c248 c249 c250 c251 c252 c253 c254"""
        base = arr[..., fi["psi"]]
        return np.stack([base + float(i) for i in range(NC)], axis=-1)
    out = os.path.join(work, "cooked")
    pools.CTL.reset(mode="inproc", seed=1)
    key = ("huge_output",)
    try:
        Chef(plotfile=path, recipe=recipe, outfile=out, kept_fields="phi", serial=True).cook()
    except Exception as e:
        rec.violation(f"cooking raised {type(e).__name__}: 255-component recipe, output binary file larger than 2 GiB",
                      key=key, witness={"exc": repr(e)[:300]})
        return
    rec.count("cooked"); rec.count("output_file_beyond_2GiB")
    probs = []
    big = 0
    try:
        lev = refparse.parse_cell_h(os.path.join(out, "Level_0", "Cell_H"), 3)
    except Exception as e:       # e.g. a negative byte offset
        rec.violation(f"cooked plotfile is not recipe(box) under the right names (the output level header does not parse: "
                      f"{e}): output binary file larger than 2 GiB", key=key, witness={"exc": repr(e)[:300]})
        return
    for bi, ((lo, hi), (fn, off)) in enumerate(zip(lev["idx"], lev["fod"])):
        b = m.boxes[0][bi]
        if tuple(lo) != b.lo or tuple(hi) != b.hi:
            probs.append(f"box {bi}: index range {lo}..{hi} != {b.lo}..{b.hi}"); break
        fp = os.path.join(out, "Level_0", fn)
        if off < 0 or off >= os.path.getsize(fp):
            probs.append(f"box {bi}: recorded offset {off} lies outside {fn} ({os.path.getsize(fp)} bytes)"); break
        big += off >= 2 ** 31
        if bi in (0, 15, 16):
            try:
                hlo, hhi, nc, arr, _ = refparse.read_fab(fp, off)
            except Exception as e:
                probs.append(f"box {bi}: no FAB at the recorded offset {off} ({e})"); break
            if tuple(hlo) != b.lo or nc != NC + 1:
                probs.append(f"box {bi}: FAB at offset {off} names {hlo}..{hhi} with {nc} components"); break
            if not refparse.biteq(arr[..., 0], m.data[0][bi][..., 0]):
                probs.append(f"box {bi}: kept field differs from the input"); break
            if not refparse.biteq(arr[..., NC], m.data[0][bi][..., 1] + float(NC - 1)):
                probs.append(f"box {bi}: last recipe component is not recipe(box)"); break
    if not big:
        rec.undecided("no box of the cooked file starts beyond 2**31")
    if probs:
        rec.violation(f"cooked plotfile is not recipe(box) under the right names ({probs[0][:140]}): output binary file larger than 2 GiB",
                      key=key, witness={"differences": probs})
    else:
        rec.ok(key, True)
    shutil.rmtree(out, ignore_errors=True)


def run_case(case, work, rec):
    if case.get("kind") == "endurance":
        return endurance.run_case(case, work, rec)
    if case.get("kind") == "huge_output":
        return run_huge_output(case, work, rec)
    from amr_kitchen.chef import Chef
    rng = random.Random(case["sel_seed"])
    g = dict(case["gen"])
    if case["kind"] == "thermo":
        sp = species()
        g["names"] = ["density", "temp"] + [f"Y({s})" for s in sp] + ["rhoh"]
    if case.get("scale"):
        m = gen.scale_model(case["scale"], **g)
        rec.count("scale_cases")
    else:
        m = gen.gen_model(**g)
    path = os.path.join(work, "plt00020")
    gen.write_plotfile(m, path, ref_ratio_extra=rng.choice([0, 0, 1, 3]), trailing_blank=rng.random() < 0.7,
                       close_blank=rng.random() < 0.3, floatfmt=rng.choice(["repr", "17g"]),
                       level_prefix=case.get("level_prefix", "Level_"))
    if case.get("level_prefix"):
        rec.count("input_with_other_level_prefix")
    if case.get("store"):
        workload.to_store(path, level_links="levels" in case["store"])
        rec.count("input_with_linked_binary_files")
    if case.get("reach"):
        path = workload.reach_link_dotdot(work, path)
        rec.count("input_reached_through_link_dotdot")
    names = m.names
    digest = common.sha(g)
    rec.sample({"plotfile": gen.describe(m), "kind": case["kind"]})
    nonmono = any(m.nonmonotone(lv) for lv in range(m.nlevels))
    configs = []
    if case["kind"] == "user":
        for kind in ("user2", "user2multi"):
            if kind == "user2multi" and "f1" not in names:
                continue
            for kept in ((None, names[-1]) if case.get("scale") else
                         (None, names[-1], " ".join(reversed(names[:2])), "nope " + names[0] + " zz")):
                configs.append((kind, kept, None, None))
        k2 = OTHER_DTYPE[case["sel_seed"] % 3]
        configs += [(k2, None, None, None), (k2, names[-1], None, None)]
    else:
        sp = species()
        s3 = rng.sample(sp, 3)
        configs = [("HRR", None, None, None), ("HRR", "temp density", None, None),
                   ("ENT", None, None, None), ("ENT", "Y(O2) temp", None, None),
                   ("SRi", None, s3, None), ("SRi", "rhoh", s3, None),
                   ("SDi", None, s3[:2], None), ("SDi", "temp Y(H2)", s3[:2], None),
                   ("RRi", None, None, [0, 5, 17]), ("RRi", "density", None, [3]),
                   ("user3", None, None, None), ("user3", "temp Y(O2) Y(N2)", None, None),
                   ("user3multi", None, None, None), ("user3multi", "Y(H2) density", None, None),
                   ("SDi" if rng.random() < 0.5 else "SRi", None, "all", None),
                   ("user3dominant", None, None, None), ("user3dominant", "temp", None, None)]
    modes = [("serial", None), ("parallel", "inproc"), ("parallel", "fork")]
    ci = 0
    for kind, kept, spsel, rxsel in configs:
        for mode, iso in (modes if case["kind"] == "user" else [modes[(ci + case["sel_seed"]) % 3]]):
            ci += 1
            as_callable = (ci % 3 == 0) and kind.startswith("user")
            P = rng.choice([1.0, 5.0]) if case["kind"] == "thermo" else None
            out = workload.out_path(work, f"out{ci}", ci, rec)
            key = (digest, kind, kept, mode, iso, as_callable, P)
            descr = (f"recipe={kind}{' (callable)' if as_callable else ''} kept_fields={kept!r} "
                     f"mode={mode}{'/' + iso if iso else ''} pressure={P}")
            kept_list = [f for f in (kept.split() if kept else []) if f in names]
            pools.CTL.reset(mode=iso or "inproc", seed=rng.randrange(10 ** 6))
            try:
                if kind.startswith("user"):
                    src, _ = USER_RECIPES[kind]
                    rp = recipe_path(work, kind)
                    with open(rp, "w") as f:
                        f.write(src)
                    if as_callable:
                        ns = {}
                        exec(src, ns)
                        recipe = ns["recipe"]
                        rec.count("callable")
                    else:
                        recipe = rp
                    kw = dict(mech=MECH, pressure=P) if kind.startswith("user3") else {}
                    ch = Chef(plotfile=path, recipe=recipe, outfile=out, kept_fields=kept,
                              serial=(mode == "serial"), **kw)
                else:
                    ch = Chef(plotfile=path, recipe=kind, outfile=out, kept_fields=kept,
                              species=spsel, reactions=rxsel, mech=MECH, pressure=P,
                              serial=(mode == "serial"))
                ch.cook()
            except Exception as e:
                rec.violation(f"cooking raised {type(e).__name__}: {descr}", key=key,
                              witness={"config": descr, "exc": repr(e)[:300]})
                continue
            rec.count("cooked"); rec.count("recipe:" + kind)
            if kept_list:
                rec.count("kept_nonempty")
            if mode == "parallel":
                rec.count("parallel")
            if spsel == "all":
                rec.count("species_all")
            probs = judge(out, m, names, kind, kept_list, P, (species() if spsel == "all" else spsel) or rxsel)
            if not probs and not taste_ok(out):
                probs.append("validation (with box coordinates) rejects the cooked plotfile")
            if probs:
                rec.violation(f"cooked plotfile is not recipe(box) under the right names ({probs[0][:120]}): {descr}",
                              key=key, witness={"config": descr, "differences": probs[:5]})
            else:
                rec.ok(key, bool(kept_list) or kind in ("user2multi", "SRi", "SDi", "RRi") or nonmono or mode == "parallel")
    # the chef entry point wires recipe / kept_fields / species / reactions / mech / pressure / outdir
    cli = common.repo_module("amr_kitchen.chef.cli")
    cli_cfgs = []
    if case["kind"] == "user":
        for kind in ("user2", "user2multi"):
            if kind == "user2multi" and "f1" not in names:
                continue
            cli_cfgs.append((kind, names[-1] + " " + names[0], None, None, None))
    else:
        sp = species()
        s2 = rng.sample(sp, 2)
        cli_cfgs = [("SDi", "temp", s2, None, 3.0), ("RRi", None, None, [1, 7], 1.0), ("HRR", "density", None, None, 2.0)]
    for kind, kept, spsel, rxsel, P in cli_cfgs:
        ci += 1
        out = os.path.join(work, f"cliout{ci}")
        if kind.startswith("user"):
            rp = recipe_path(work, kind)
            with open(rp, "w") as f:
                f.write(USER_RECIPES[kind][0])
            args = ["chef", path, "--recipe", rp, "--outdir", out]
        else:
            args = ["chef", path, "--recipe", kind, "--outdir", out, "--mech", MECH, "--pressure", repr(P)]
            if spsel:
                args += ["--species"] + spsel
            if rxsel:
                args += ["--reactions"] + [str(r) for r in rxsel]
        if kept:
            args += ["--kept_fields", kept]
        key = (digest, "cli", kind, kept, P)
        descr = "chef " + " ".join(a if len(a) < 40 else os.path.basename(a) for a in args[2:])
        kept_list = [f for f in (kept.split() if kept else []) if f in names]
        pools.CTL.reset(mode="inproc", seed=rng.randrange(10 ** 6))
        try:
            with common.argv(args):
                cli.main()
        except (Exception, SystemExit) as e:
            rec.violation(f"chef entry point raised {type(e).__name__}: {descr}", key=key,
                          witness={"argv": descr, "exc": repr(e)[:300]})
            continue
        rec.count("cli_runs")
        probs = judge(out, m, names, kind, kept_list, P, spsel or rxsel)
        if probs:
            rec.violation(f"chef entry point: cooked plotfile is not recipe(box) under the right names ({probs[0][:120]}): {descr}",
                          key=key, witness={"argv": descr, "differences": probs[:4]})
        else:
            rec.ok(key, True)
    if any(c[3] for c in pools.CTL.calls) and pools.check_log():
        rec.violation("pool log: " + str(pools.check_log()))
