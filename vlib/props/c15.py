"""C15 — level iteration yields every box exactly once, whatever the schedule.
History check: the sequence yielded by `for box in pck[f][lv]` (and by .iter(sel)) is recorded
under the M1 schedule controller for every execution order of the per-file tasks (all n! for
<=4 files, sampled beyond; in-process and fork-per-task isolation) and compared as a multiset
(resp. sequence) with the model; the reader-worker contracts (M6) check each per-file scan."""
import json, os, random, itertools
import numpy as np
from .. import common, gen, refparse, workload, pools, contracts, endurance

ID = "C15"
LEVEL = "exploration"
RULE = ("cases = generated plotfiles x field selector forms (int, name, ascending list, forward "
        "slice) x levels; each iterated under every execution order of its per-file read tasks "
        "(exhaustive for <=4 files) in in-process and fork-per-task isolation, plus .iter() on "
        "box selections. one evaluation = one complete iteration compared with the model as a "
        "multiset of bit patterns (sequence for .iter). distinct = hash(model, selector, level, "
        "schedule); non-trivial = level with >=2 files holding >=2 boxes in one of them, or "
        "in-file order != box order, under a non-identity schedule")
ASSUMPTIONS = ["tasks are atomic (one per binary file)", "generator/refparse trusted base"]
REQUIRED_OBS = {"endurance_calls": 100, "iterations": 200, "schedules_nonidentity": 30,
                "iter_selections": 50}
TIMEOUT = {"quick": 300, "thorough": 1200}


def cases(tier, seed):
    n = 48 if tier == "quick" else 800
    cs = workload.reader_population(n, seed + 1500, max_levels=3)
    for i, c in enumerate(cs):
        c["sel_seed"] = seed * 31 + i
        c["gen"]["maxfiles"] = 4 if i % 4 else 6
    # one level step refined by 4 (Header ratio lines `4`, `2 4`, `4 2`): a level's boxes reach beyond what a ratio
    # of 2 would give its domain
    r4 = []
    for c in list(cs):
        g = c["gen"]
        if len(r4) < (8 if tier == "quick" else 120) and g.get("nlevels", 1) in (2, 3) and g.get("bf", 8) <= 4 \
                and not c.get("scale") and not c.get("deepen"):
            c2 = json.loads(json.dumps(c))
            c2["gen"]["seed"] = g["seed"] + 40004
            c2["gen"]["full_refine"] = True
            c2["ratio4"] = "coarse" if (len(r4) % 3 == 2 and g["nlevels"] == 3) else True
            r4.append(c2)
    cs = list(cs) + r4
    cs.append({"kind": "huge", "sel_seed": seed * 31 + 999})      # byte offsets beyond 2**31
    # M10: the same operation repeated in one process under a low open-file limit (vlib/endurance.py)
    return list(cs) + [endurance.case("iterate", tier, seed)]


def setup():
    pools.install()
    contracts.install(("headers", "readers"))


def multiset(arrs):
    return sorted((a.shape, np.ascontiguousarray(a).tobytes()) for a in arrs)


def run_huge(case, work, rec):
    """a binary file larger than 2 GiB: three boxes stored at byte offsets beyond 2**31"""
    from amr_kitchen import PlotfileCooker
    path, boxes, names, offs = workload.build_huge(work, case["sel_seed"])
    rec.sample({"huge": {"offsets": offs, "fields": len(names)}})
    pools.CTL.reset(mode="inproc", seed=1, default="reverse")
    pck = PlotfileCooker(path)

    def exp(bi, comps):
        lo, hi, a = boxes[bi]
        if a is None:
            shp = tuple(h - l + 1 for l, h in zip(lo, hi))
            return np.zeros(shp if isinstance(comps, int) else shp + (len(comps),))
        return a[..., comps]
    for fd, fsel, comps in (("int:5", 5, 5), ("name:f131", "f131", 131), ("list:[129, 130]", [129, 130], [129, 130])):
        key = ("huge", fd)
        try:
            got = list(pck[fsel][0])
            rec.count("iterations"); rec.count("offsets_beyond_2GiB")
            if multiset(got) != multiset([exp(bi, comps) for bi in range(len(boxes))]):
                rec.violation(f"level iteration over a binary file larger than 2 GiB does not yield the stored boxes: [{fd}][0]", key=key)
            else:
                rec.ok(key, True)
            order = [3, 1, 2]
            got = list(pck[fsel][0].iter(order))
            rec.count("iter_selections")
            if len(got) != 3 or not all(refparse.biteq(g, exp(bi, comps)) for g, bi in zip(got, order)):
                rec.violation(f".iter did not yield the boxes stored beyond 2 GiB in the requested order: [{fd}][0].iter({order})", key=key + ("iter",))
            else:
                rec.ok(key + ("iter",), True)
        except Exception as e:
            rec.violation(f"iteration raised {type(e).__name__}: [{fd}][0] on a binary file larger than 2 GiB", key=key,
                          witness={"exc": repr(e)[:300], "offsets": offs})


def run_case(case, work, rec):
    if case.get("kind") == "endurance":
        return endurance.run_case(case, work, rec)
    if case.get("kind") == "huge":
        return run_huge(case, work, rec)
    from amr_kitchen import PlotfileCooker
    rng = random.Random(case["sel_seed"])
    m, path = workload.build(case, work)
    digest = common.sha(case["gen"])
    rec.sample({"plotfile": gen.describe(m)})
    try:
        pck = PlotfileCooker(path)
    except Exception as e:
        rec.violation(f"iteration raised {type(e).__name__}: the well-formed plotfile could not be opened, no box is yielded "
                      f"(format variant {case.get('fmt')})", key=(digest, "open"), witness={"exc": repr(e)[:300]})
        return
    keys = list(pck.fields.keys())
    nf = m.nfields
    n0 = dict(contracts.COUNTS)
    for lv in range(m.nlevels):
        nb = len(m.boxes[lv])
        nfl = m.nfiles(lv)
        per_file = {}
        for f in m.layout[lv]["file_of"]:
            per_file[f] = per_file.get(f, 0) + 1
        interesting = (nfl >= 2 and max(per_file.values()) >= 2) or m.nonmonotone(lv)
        f1 = rng.randrange(nf)
        fl = sorted(rng.sample(range(nf), min(nf, rng.randint(1, 3))))
        a = rng.randrange(nf); b = rng.randint(a + 1, nf); st = rng.choice([None, 1, 2])
        sels = [(f"int:{f1}", f1, f1), (f"name:{keys[f1]}", keys[f1], f1), (f"list:{fl}", fl, fl),
                (f"slice:{a}:{b}:{st}", slice(a, b, st), list(range(nf))[slice(a, b, st)]),
                ("slice:all", slice(None), list(range(nf)))]
        # forms the statement does not name but that have a natural reading (numpy index arrays, boolean
        # masks of fields): iterating may refuse them, or must yield exactly the fields they denote
        lenient = set()
        if nf >= 2:
            k = rng.randint(1, nf - 1)
            sels += [(f"npmask:sorted{k}", np.arange(nf) >= k, list(range(k, nf))),
                     (f"listmask:sorted{k}", [i >= k for i in range(nf)], list(range(k, nf))),
                     (f"nparr:{fl}", np.array(fl), fl)]
            lenient = {sels[-3][0], sels[-2][0], sels[-1][0]}
            # indices counted from the end: the run of the last two / three fields, and every field
            kk = min(nf, rng.choice([2, 3]))
            tail = list(range(-kk, 0))
            sels += [(f"neglist:{tail}", tail, list(range(nf - kk, nf))),
                     (f"negarr:{tail}", np.array(tail), list(range(nf - kk, nf))),
                     (f"neglist:all", list(range(-nf, 0)), list(range(nf)))]
            lenient |= {sels[-3][0], sels[-2][0], sels[-1][0]}
            if nf > kk:      # the same run one field earlier: it does not reach the last field
                inner = [t - 1 for t in tail]
                sels.append((f"neglist:{inner}", inner, list(range(nf - kk - 1, nf - 1))))
                lenient.add(sels[-1][0])
        neg_outcomes = {}      # form of a negative index list -> answered / refused (the family must be treated alike)
        for fd, fsel, comps in sels:
            exp = multiset([m.data[lv][bi][..., comps] for bi in range(nb)])
            if nfl <= 4:
                perms = list(itertools.permutations(range(nfl)))
            else:
                perms = [tuple(range(nfl)), tuple(reversed(range(nfl)))]
                for _ in range(6):
                    p = list(range(nfl)); rng.shuffle(p); perms.append(tuple(p))
            for pi, perm in enumerate(perms):
                mode = "fork" if (pi % 5 == 1) else "inproc"
                pools.CTL.reset(mode=mode, plan={0: perm}, default="identity")
                key = (digest, fd, lv, perm, mode)
                try:
                    it = iter(pck[fsel][lv])
                    got = []
                    while True:
                        try:
                            got.append(next(it))
                        except StopIteration:
                            break
                        if len(got) > nb + 5:
                            break
                    # after the end it must keep stopping
                    try:
                        next(it)
                        extra = True
                    except StopIteration:
                        extra = False
                except Exception as e:
                    if fd.startswith("neglist:"):
                        neg_outcomes.setdefault(fd, f"refused ({type(e).__name__})")
                    if fd in lenient:
                        rec.count("lenient_forms_refused")
                        rec.ok(key, False)
                        continue
                    rec.violation(f"iteration raised {type(e).__name__}: [{fd}][{lv}] schedule {perm}",
                                  witness={"selector": fd, "level": lv, "schedule": list(perm), "exc": repr(e)[:300]}, key=key)
                    continue
                rec.count("iterations")
                if fd.startswith("neglist:"):
                    neg_outcomes.setdefault(fd, "answered")
                if fd in lenient:
                    rec.count("lenient_forms_answered")
                if list(perm) != sorted(perm):
                    rec.count("schedules_nonidentity")
                rec.seen("schedules", (nfl, perm))
                calls = pools.CTL.calls
                if calls and calls[0][1] == nfl:
                    rec.count("schedule_controlled")       # one task per binary file, run in the chosen order
                bad = None
                try:
                    if len(got) != nb:
                        bad = f"{len(got)} boxes yielded, level has {nb}"
                    elif multiset(got) != exp:
                        bad = "yielded boxes are not the stored boxes (as a multiset of bit patterns)"
                    elif extra:
                        bad = "iterator yielded again after StopIteration"
                except Exception as e:
                    bad = f"uncomparable items ({type(e).__name__})"
                if bad:
                    rec.violation(f"{bad}: [{fd}][{lv}] schedule {perm} ({mode})",
                                  witness={"selector": fd, "level": lv, "schedule": list(perm),
                                           "files": nfl, "boxes": nb}, key=key)
                else:
                    rec.ok(key, interesting and list(perm) != sorted(perm))
        # on-demand iterator over a box selection: requested order, bit-equal
        # lists of indices counted from the end are one form: answered for one run of fields and refused for another
        # (the run that reaches the last field, say) is a defect on the refused one, not a refusal of the form
        if len(set(neg_outcomes.values())) > 1 and "answered" in neg_outcomes.values():
            rec.violation(f"iteration treats lists of negative field indices inconsistently at level {lv}: {neg_outcomes}",
                          key=(digest, "neglist-family", lv), witness={"outcomes": neg_outcomes})
        elif neg_outcomes:
            rec.count("negative_index_list_families_judged")
        bsels = [("slice:all", slice(None), list(range(nb))), ("slice:rev", slice(None, None, -1), list(range(nb))[::-1]),
                 ("slice:2", slice(None, None, 2), list(range(nb))[::2])]
        ids = [rng.randrange(nb) for _ in range(rng.randint(1, min(nb, 5)))]
        bsels.append((f"list:{ids}", ids, ids))
        bsels.append((f"arr:{ids}", np.array(ids), ids))
        mk = [rng.random() < 0.6 for _ in range(nb)]
        bsels.append(("mask", np.array(mk), [i for i, v in enumerate(mk) if v]))
        b0 = rng.randrange(nb)
        for bd, bsel, boxes in bsels:
            for fd, fsel, comps in sels[:3] + [x for x in sels if x[0] in lenient][:1]:
                pools.CTL.reset(mode="inproc", seed=rng.randrange(10 ** 6))
                key = (digest, "iter", fd, lv, bd)
                try:
                    got = list(pck[fsel][lv].iter(bsel))
                except Exception as e:
                    if fd in lenient:
                        rec.count("lenient_forms_refused")
                        rec.ok(key, False)
                        continue
                    rec.violation(f".iter raised {type(e).__name__}: [{fd}][{lv}].iter({bd})", key=key,
                                  witness={"exc": repr(e)[:300]})
                    continue
                rec.count("iter_selections")
                ok = len(got) == len(boxes) and all(
                    refparse.biteq(g, m.data[lv][bi][..., comps]) for g, bi in zip(got, boxes))
                if ok:
                    rec.ok(key, interesting and len(boxes) >= 2)
                else:
                    rec.violation(f".iter did not yield the selected boxes in the requested order: "
                                  f"[{fd}][{lv}].iter({bd})", key=key,
                                  witness={"selector": fd, "level": lv, "boxes": boxes, "yielded": len(got)})
        # .iter(int) returns that box
        got = pck[f1][lv].iter(b0)
        if isinstance(got, np.ndarray) and refparse.biteq(got, m.data[lv][b0][..., f1]):
            rec.ok((digest, "iter-int", lv), False)
        else:
            rec.violation(f".iter(int) did not return the stored box: [{f1}][{lv}].iter({b0})")
    # a level limit together with a negative level number: -1 is the finest level the reader exposes (or refused)
    if m.nlevels >= 2:
        for L in range(m.nlevels - 1):
            pools.CTL.reset(mode="inproc", seed=3)
            try:
                pckL = PlotfileCooker(path, limit_level=L)
            except Exception as e:
                rec.violation(f"iteration raised {type(e).__name__}: opening with limit_level={L}", key=(digest, "open-limit", L))
                continue
            for neg in range(-1, -(L + 2), -1):
                lv = L + 1 + neg
                key = (digest, "neg-lv", L, neg)
                try:
                    got = list(pckL[f1][neg])
                except Exception:
                    rec.count("negative_levels_refused")
                    rec.ok(key, False)
                    continue
                rec.count("iterations"); rec.count("negative_levels_under_a_limit")
                if multiset(got) != multiset([m.data[lv][bi][..., f1] for bi in range(len(m.boxes[lv]))]):
                    rec.violation(f"yielded boxes are not the stored boxes (as a multiset of bit patterns): [{f1}][{neg}] with "
                                  f"limit_level={L} is level {lv} ({m.nlevels} levels in the Header)", key=key,
                                  witness={"limit_level": L, "level": neg, "yielded": len(got), "level_has": len(m.boxes[lv])})
                else:
                    rec.ok(key, True)
    for k, v in contracts.COUNTS.items():
        rec.count("calls:" + k, v - n0.get(k, 0))
    # contracts hang on internal functions: a failure is a verdict only when the case also failed
    # behaviourally (then it localises the defect); alone it is reported as an observation
    if contracts.FAILS:
        rec.count("contract_failures", len(contracts.FAILS))
        if rec.violations:
            for f in contracts.FAILS[:3]:
                rec.violation(f"(diagnostic) contract on {f['contract']} broken at the source: {f['detail']}", witness=f)
