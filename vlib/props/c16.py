"""C16 — mandoline's plotfile-format slice is a valid 2D plotfile of the plane data.
Monitors: the written 2D plotfile is parsed independently and compared, per level and per box,
with that level's own bracketing samples (slicemodel); poison allocator (two poison values
must give byte-identical trees); taste with box coordinates; min/max rows vs written data."""
import os, random, shutil
import numpy as np
from .. import common, gen, refparse, refmodel, workload, pools, poison, slicemodel, endurance

ID = "C16"
LEVEL = "exploration"
RULE = ("cases = generated 3D plotfiles with affine / tagged / random fields x normal x positions "
        "by geometric class (box-face positions and positions a selected level does not meet are "
        "driven but only required to 'raise or be taste-valid') x field lists x level limits, "
        "plus slices larger than the 1 MB file-splitting threshold with box counts not divisible "
        "by the file count; one evaluation = one written 2D plotfile judged box by box. distinct = "
        "hash(model, normal, position, limit, fields); non-trivial = >=2 levels and a position "
        "strictly between cell centres, or the splitting case")
ASSUMPTIONS = ["per box, pixels where the level holds only one of the two bracketing samples are "
               "not judged for the exact value (statement does not single out a value)",
               "pool shim M1"]
REQUIRED_OBS = {"endurance_calls": 100, "plotfiles_written": 100, "written_onto_existing_output": 40, "reused_instance_slices": 30, "boxes_checked": 300, "pixels_decided": 5000,
                "splitting_cases": 1, "multi_level": 20, "cli_runs": 10}
CHAIN = {"quick": 2, "thorough": 20}
TIMEOUT = {"quick": 600, "thorough": 3000}
NAMES = ["ax", "ay", "az", "tagx", "tagy", "tagz", "rnd", "near", "cix", "ciy", "ciz", "trc"]


def cases(tier, seed):
    n = 14 if tier == "quick" else 800
    rng = random.Random(seed + 1600)
    cs = []
    for i in range(n):
        bf = rng.choice([2, 4, 4])
        g = dict(seed=rng.randrange(10 ** 9), ndims=3, nlevels=1 + i % 3, bf=bf,
                 names=NAMES, payload="affine", base_blocks=(1, 3) if bf == 4 else (2, 4))
        if i % 4 == 3:
            g["full_refine"] = True
        if i % 7 == 3:      # odd base grid, blocking factor 1: boxes one cell thick, planes through their centres
            g.update(bf=1, base=[5, 6, 7] if i % 14 == 3 else [7, 3, 9], maxsz=3, nlevels=1 + (i // 7) % 2)
            g.pop("base_blocks", None)
            g.pop("full_refine", None)
        if i % 5 == 2:      # the same geometry in micrometres / nanometres
            g["length_scale"] = [1e-6, 1e-9][(i // 5) % 2]
        if i % 3 == 1:      # far from the origin: coordinate / cell size of 1e5 .. 1e7
            g["origin"] = [rng.choice([1.0e5, -3.0e5, 2.5e6]) for _ in range(3)]
        cs.append({"kind": "geom", "gen": g, "sel_seed": seed * 53 + i, "npos": 8 if tier == "quick" else 12, "fmt": dict(ref_ratio_extra=rng.choice([0, 0, 1, 3]), trailing_blank=rng.random() < 0.7, close_blank=rng.random() < 0.3, floatfmt=rng.choice(["repr", "17g"]))})
    # scale: a box of more than 2**20 cells that does not start its binary file
    for k in range(1 if tier == "quick" else 3):
        cs.append({"kind": "geom", "scale": "bigbox", "gen": dict(seed=seed * 29 + 1616 + k, names=NAMES, payload="affine"),
                   "sel_seed": seed * 53 + 1616 + k, "npos": 2, "fmt": {}, "big": True})
    nsplit = 1 if tier == "quick" else 4
    for i in range(nsplit):
        nbx, nby = [(11, 1), (13, 1), (7, 2), (5, 3)][i % 4]     # 11, 13, 14 boxes: not divisible by the file count
        g = dict(seed=rng.randrange(10 ** 9), ndims=3, nlevels=1, names=[f"q{k}" for k in range(10)],
                 payload="random", base=[64 * nbx, 64 * nby, 2], sizes=[[64], [64], [2]], aniso=False)
        cs.append({"kind": "split", "gen": g, "sel_seed": seed * 59 + i})
    # M10: the same operation repeated in one process under a low open-file limit (vlib/endurance.py)
    return list(workload.add_reach_store(cs)) + [endurance.case("slice_plotfile", tier, seed)]


def setup():
    pools.install()
    poison.install()


def taste_ok(path):
    from amr_kitchen.taste import Taster
    try:
        return bool(Taster(path, boxes_coordinates=True, nofail=True, verbose=0))
    except Exception:
        return False


def judge(out, m, vol, n, pos, L, fl):
    """-> (problems, boxes checked, pixels decided, pixels undecided)"""
    probs = []
    cx, cy = [d for d in range(3) if d != n]
    names = m.names
    want = [f for f in fl]
    try:
        r = refparse.parse(out)
    except Exception as e:
        return [f"output does not parse as a plotfile: {type(e).__name__}: {e}"], 0, 0, 0
    if r["names"] != want:
        probs.append(f"field names {r['names']} != {want}")
        return probs, 0, 0, 0
    if r["ndims"] != 2:
        probs.append("output is not 2D")
    if not refmodel._feq(r["time"], m.time):
        probs.append(f"time {r['time']} != {m.time}")
    if r["finest"] != L:
        probs.append(f"finest level {r['finest']} != {L}")
        return probs, 0, 0, 0
    if r["geo_low"] != [m.geo_low[cx], m.geo_low[cy]] or r["geo_high"] != [m.geo_high[cx], m.geo_high[cy]]:
        probs.append("in-plane domain bounds differ")
    if r["dx"] != [[m.dx[lv][cx], m.dx[lv][cy]] for lv in range(L + 1)]:
        probs.append("cell sizes differ")
    if r["grid_sizes"] != [[m.grid_sizes[lv][cx], m.grid_sizes[lv][cy]] for lv in range(L + 1)]:
        probs.append("grid sizes differ")
    nb = nd = nu = 0
    lo0 = m.geo_low[n] + m.dx[0][n] / 2
    hi0 = m.geo_high[n] - m.dx[0][n] / 2
    eps_n = 1e-9 * m.dx[L][n] + 8 * 2.220446049250313e-16 * max(abs(m.geo_low[n]), abs(m.geo_high[n]))     # scale aware
    inside0 = lo0 - eps_n <= pos <= hi0 + eps_n
    for lv in range(L + 1):
        lev = r["levels"][lv]
        dxn = m.dx[lv][n]
        met = []
        for bi, b in enumerate(m.boxes[lv]):
            blo = m.geo_low[n] + b.lo[n] * dxn
            bhi = m.geo_low[n] + (b.hi[n] + 1) * dxn
            if blo - eps_n <= pos <= bhi + eps_n:
                met.append(((b.lo[cx], b.lo[cy]), (b.hi[cx], b.hi[cy])))
        got = [(tuple(lo), tuple(hi)) for lo, hi in lev["idx"]]
        if sorted(got) != sorted(met):
            probs.append(f"level {lv}: footprints written {len(got)} (distinct {len(set(got))}), "
                         f"boxes the plane meets {len(met)}")
            continue
        br = slicemodel.brackets(m, lv, n, pos)
        planes = [slicemodel.plane(vol, lv, n, k, 1) for k, c in br]
        allc = np.ones(planes[0][0].shape, dtype=bool)
        for c, v, b in planes:
            allc &= c
        if len(br) == 1:
            val = slicemodel.single_sample(vol, lv, n, pos, br[0][0], 1)
        else:
            (k0, c0), (k1, c1) = br
            w1 = (pos - c0) / (c1 - c0)
            val = slicemodel.interp(planes[0][1], planes[1][1], w1)
        for ob, ((lo, hi), d) in enumerate(zip(lev["idx"], lev["data"])):
            nb += 1
            if d["hlo"] != lo or d["hhi"] != hi:
                probs.append(f"level {lv} box {ob}: FAB header names another footprint")
                continue
            sl = (slice(lo[0], hi[0] + 1), slice(lo[1], hi[1] + 1))
            arr = d["arr"]
            dec = allc[sl]
            nd += int(dec.sum()); nu += int((~dec).sum())
            for ci, nm in enumerate(want):
                a = arr[..., ci]
                e = val[sl][..., names.index(nm)]
                scale = slicemodel.field_scale(m, names.index(nm))
                bad = dec & slicemodel.differs(a, e, slicemodel.value_tol(m, L, n) * scale)
                if bad.any():
                    i, j = np.argwhere(bad)[0]
                    probs.append(f"level {lv} box {lo}..{hi} field {nm}: {int(bad.sum())} pixels are not the level's own "
                                 f"samples interpolated onto the plane (e.g. got {a[i, j]!r}, expected {e[i, j]!r})")
                if nm == "a" + "xyz"[n] and inside0:
                    aa, cc = m.coef[n]
                    expv = aa + cc * pos
                    badp = ~(np.abs(a - expv) <= slicemodel.value_tol(m, L, n) * max(1.0, abs(expv)))
                    if badp.any():
                        probs.append(f"level {lv} box {lo}..{hi} field {nm} (affine along the normal): "
                                     f"{int(badp.sum())} pixels are not {expv!r} (e.g. {a[tuple(np.argwhere(badp)[0])]!r})")
            ph = lev["phys"][ob]
            eph = [[m.geo_low[d_] + lo[k] * m.dx[lv][d_], m.geo_low[d_] + (hi[k] + 1) * m.dx[lv][d_]] for k, d_ in enumerate((cx, cy))]
            if any(abs(ph[k][s] - eph[k][s]) > 1e-9 * max(1.0, abs(eph[k][s])) for k in (0, 1) for s in (0, 1)):
                probs.append(f"level {lv} box {lo}..{hi}: physical bounds {ph} != {eph}")
            if lev["mins"] is None or ob >= len(lev["mins"]):
                probs.append(f"level {lv}: min/max tables missing")
            else:
                with np.errstate(all="ignore"):
                    emin = refmodel.header_row([np.min(arr[..., c]) for c in range(len(want))])
                    emax = refmodel.header_row([np.max(arr[..., c]) for c in range(len(want))])
                if not all(refmodel._feq(x, y) for x, y in zip(lev["mins"][ob], emin)) or \
                        not all(refmodel._feq(x, y) for x, y in zip(lev["maxs"][ob], emax)):
                    probs.append(f"level {lv} box {lo}..{hi}: min/max rows are not the extrema of the written data")
            if len(probs) > 8:
                return probs, nb, nd, nu
    if not probs:
        probs += ["format: " + x for x in refmodel.conform(out)]
    return probs, nb, nd, nu


def on_box_face(m, L, n, pos):
    for lv in range(L + 1):
        dx = m.dx[lv][n]
        for b in m.boxes[lv]:
            for fk in (b.lo[n], b.hi[n] + 1):
                if abs(m.geo_low[n] + fk * dx - pos) < 1e-9 * dx + 8 * 2.220446049250313e-16 * abs(pos):
                    return True
    return False


def level_not_met(m, L, n, pos):
    for lv in range(L + 1):
        dx = m.dx[lv][n]
        if not any(m.geo_low[n] + b.lo[n] * dx <= pos <= m.geo_low[n] + (b.hi[n] + 1) * dx for b in m.boxes[lv]):
            return True
    return False


def cli_vs_api(case, work, rec, m, path, digest, rng):
    """the mandoline entry point in plotfile format must write what the API writes for the same request
    (position 0.0 and level limit 0 - falsy values - included)"""
    from amr_kitchen.mandoline import Mandoline
    cli = common.repo_module("amr_kitchen.mandoline.cli")
    finest = m.nlevels - 1
    reqs = []
    for n in range(3):
        lo, hi = m.geo_low[n], m.geo_high[n]
        cands = [lo + (hi - lo) * rng.random()]
        if lo <= 0.0 <= hi:
            cands.append(0.0)
        for pos in cands:
            if slicemodel.too_close_to_centre(m, finest, n, pos) and pos != 0.0:
                continue
            reqs.append((n, pos, rng.choice([None, 0, finest])))
    for n, pos, limit in reqs[:4]:
        fl = rng.choice([["rnd"], ["a" + "xyz"[n], "rnd"]])
        o_api = os.path.join(work, "api_slice")
        o_cli = os.path.join(work, "cli_slice")
        for o in (o_api, o_cli):
            if os.path.exists(o):
                shutil.rmtree(o)
        args = ["mandoline", "-n", str(n), "--position=" + repr(pos), "-v"] + fl + ["-f", "plotfile", "-o", o_cli, "-V", "0", "-s"]
        if limit is not None:
            args += ["-L", str(limit)]
        args.append(path)
        key = (digest, "cli", n, pos, limit, tuple(fl))
        poison.set_poison(np.nan)
        pools.CTL.reset(mode="inproc", seed=1)
        try:
            Mandoline(path, fields=list(fl), limit_level=limit, serial=True, verbose=0).slice(
                normal=n, pos=pos, outfile=o_api, fformat="plotfile")
            api_ok = True
        except Exception:
            api_ok = False
        try:
            with common.argv(args):
                cli.main()
            cli_ok = True
        except (Exception, SystemExit):
            cli_ok = False
        rec.count("cli_runs")
        if pos == 0.0:
            rec.count("cli_position_zero")
        if limit == 0:
            rec.count("cli_level_zero")
        if api_ok != cli_ok:
            rec.violation(f"mandoline entry point and API disagree on whether the request can be served "
                          f"(API ok={api_ok}, entry point ok={cli_ok}): {' '.join(args[1:-1])}", key=key)
        elif api_ok and refmodel.tree_digest(o_api) != refmodel.tree_digest(o_cli):
            rec.violation(f"mandoline entry point wrote another slice plotfile than the API for the same request: "
                          f"{' '.join(args[1:-1])}", key=key, witness={"argv": args[1:-1]})
        else:
            rec.ok(key, pos == 0.0 or limit == 0)


def run_case(case, work, rec):
    if case.get("kind") == "endurance":
        return endurance.run_case(case, work, rec)
    from amr_kitchen.mandoline import Mandoline
    rng = random.Random(case["sel_seed"])
    m, path = workload.build(case, work)
    digest = common.sha(case["gen"])
    rec.sample({"plotfile": gen.describe(m), "kind": case["kind"]})
    finest = m.nlevels - 1
    if case["kind"] == "geom":
        cli_vs_api(case, work, rec, m, path, digest, rng)
    vols = {}
    jobs_default = []
    if case["kind"] == "geom":
        reuse_instance(case, work, rec, m, path, digest, rng, vols)
    jobs = []
    if case["kind"] == "geom":
        # an explicit normal together with the default position: the plane through the domain centre along THAT normal
        for n in range(3):
            centre = m.geo_low[n] + (m.geo_high[n] - m.geo_low[n]) / 2
            jobs_default.append((n, centre))
    if case["kind"] == "split":
        for n, pos in ((2, m.geo_low[2] + 0.3 * (m.geo_high[2] - m.geo_low[2])),):
            jobs.append((n, ("split", pos), None, list(m.names)))
    else:
        for n in range(3):
            for limit in ([None] if finest == 0 else [None, rng.randrange(finest)]):
                L = finest if limit is None else limit
                plist = slicemodel.positions(m, L, n, rng, 2)
                rng.shuffle(plist)
                for cp in plist[:case["npos"]]:
                    fl = rng.choice([list(NAMES), ["a" + "xyz"[n], "tag" + "xyz"[n], "rnd"], ["rnd"], ["tagx", "ay"], ["near", "az"], ["trc"], ["trc", "rnd"],
                                     ["ci" + "xyz"[n], "rnd"], ["ci" + "xyz"[n]]])
                    jobs.append((n, cp, limit, fl))
    for jn, (n, (cls, pos), limit, fl) in enumerate(jobs):
        L = finest if limit is None else limit
        if L not in vols:
            vols[L] = slicemodel.LevelVolumes(m, L)
        if slicemodel.too_close_to_centre(m, L, n, pos):
            rec.skip("position within the snapping tolerance of a cell centre")
            continue
        lenient = on_box_face(m, L, n, pos) or level_not_met(m, L, n, pos)
        key = (digest, n, pos, limit, tuple(fl))
        descr = f"normal={'xyz'[n]} pos={pos!r} ({cls}) limit_level={limit} fields={fl}"
        outs, err = [], None
        for pi, pv in enumerate((np.nan, 1e30)):
            poison.set_poison(pv)
            pools.CTL.reset(mode="inproc", seed=rng.randrange(10 ** 6))
            out = workload.out_path(work, f"slice{pi}", pi + 1, rec)
            # the requested output may exist already: every third request finds the slice plotfile of an
            # earlier request there (another plane / field list / limit), every third an empty directory.
            # The tool may refuse; after a normal return the path holds the slice that was asked for.
            existing = None
            if jn % 3 == 1 and os.path.isdir(out):
                existing = "the plotfile of an earlier slice"
            else:
                if os.path.exists(out):
                    shutil.rmtree(out)
                if jn % 3 == 2:
                    os.makedirs(out)
                    existing = "an empty directory"
            try:
                md = Mandoline(path, fields=list(fl), limit_level=limit, serial=(pi == 0), verbose=0)
                md.slice(normal=n, pos=pos, outfile=out, fformat="plotfile")
                outs.append(out)
                if existing:
                    rec.count("written_onto_existing_output")
            except Exception as e:
                if existing and isinstance(e, (FileExistsError, IsADirectoryError)):
                    rec.count("existing_output_refused")
                    err = "refused"
                    break
                err = f"{type(e).__name__}: {str(e)[:200]}"
                break
        if err == "refused":
            rec.ok(key, False)
            continue
        if existing:
            descr += f" output={existing}"
        if err:
            if lenient:
                rec.ok(key, False)
            else:
                rec.violation(f"plotfile-format slice raised {err.split(':')[0]}: {descr}", key=key,
                              witness={"config": descr, "exc": err})
            continue
        rec.count("plotfiles_written")
        if lenient:
            if taste_ok(outs[0]):
                rec.ok(key, False)
            else:
                rec.violation(f"slice on a box face / off a level wrote a plotfile validation rejects: {descr}",
                              key=key, witness={"config": descr})
            continue
        probs, nb, nd, nu = judge(outs[0], m, vols[L], n, pos, L, fl)
        rec.count("boxes_checked", nb); rec.count("pixels_decided", nd); rec.count("pixels_undecided", nu)
        if L >= 1:
            rec.count("multi_level")
        if case["kind"] == "split":
            rec.count("splitting_cases")
            rec.count("split_files", len([f for f in os.listdir(os.path.join(outs[0], "Level_0")) if f.startswith("Cell_D")]))
        if not probs and refmodel.tree_digest(outs[0]) != refmodel.tree_digest(outs[1]):
            probs.append("written values depend on uninitialised memory (trees of two poison runs differ)")
        if not probs and not taste_ok(outs[0]):
            probs.append("validation (with box coordinates) rejects the slice plotfile")
        if probs:
            rec.violation(f"slice plotfile is not the plane data ({probs[0][:150]}): {descr}", key=key,
                          witness={"config": descr, "differences": probs[:4]})
        else:
            rec.ok(key, case["kind"] == "split" or (L >= 1 and not cls.startswith("centre")))
    for n, centre in jobs_default:
        default_position(rec, work, m, path, digest, vols, n, centre)


def default_position(rec, work, m, path, digest, vols, n, centre):
    from amr_kitchen.mandoline import Mandoline
    finest = m.nlevels - 1
    if finest not in vols:
        vols[finest] = slicemodel.LevelVolumes(m, finest)
    key = (digest, "default-position", n)
    descr = f"normal={'xyz'[n]} default position (domain centre {centre!r}) fields=['rnd', 'a{'xyz'[n]}']"
    fl = ["rnd", "a" + "xyz"[n]]
    out = os.path.join(work, "slice_default")
    if os.path.exists(out):
        shutil.rmtree(out)
    poison.set_poison(np.nan)
    pools.CTL.reset(mode="inproc", seed=7)
    try:
        Mandoline(path, fields=list(fl), serial=True, verbose=0).slice(normal=n, outfile=out, fformat="plotfile")
    except Exception as e:
        if on_box_face(m, finest, n, centre) or level_not_met(m, finest, n, centre):
            rec.ok(key, False)
        else:
            rec.violation(f"plotfile-format slice raised {type(e).__name__}: {descr}", key=key, witness={"exc": repr(e)[:300]})
        return
    rec.count("default_position_slices")
    if on_box_face(m, finest, n, centre) or level_not_met(m, finest, n, centre) or slicemodel.too_close_to_centre(m, finest, n, centre):
        # which box represents a footprint on a shared face is open; a plane through cell centres needs no interpolation
        if taste_ok(out):
            rec.ok(key, False)
        else:
            rec.violation(f"slice at the default position wrote a plotfile validation rejects: {descr}", key=key)
        return
    probs, nb, nd, nu = judge(out, m, vols[finest], n, centre, finest, fl)
    if probs:
        rec.violation(f"slice plotfile is not the plane data ({probs[0][:150]}): {descr}", key=key,
                      witness={"config": descr, "differences": probs[:4]})
    else:
        rec.ok(key, True)


def reuse_instance(case, work, rec, m, path, digest, rng, vols):
    """one Mandoline instance asked for plotfile-format slices along different normals and at
    different positions: every output is judged like a fresh instance's"""
    from amr_kitchen.mandoline import Mandoline
    finest = m.nlevels - 1
    if finest not in vols:
        vols[finest] = slicemodel.LevelVolumes(m, finest)
    fl = ["rnd", "ax", "ay", "az"]
    poison.set_poison(np.nan)
    pools.CTL.reset(mode="inproc", seed=rng.randrange(10 ** 6))
    md = Mandoline(path, fields=list(fl), serial=True, verbose=0)
    reqs = []
    for n in (0, 1, 2, 0, 2):
        for _ in range(20):
            pos = m.geo_low[n] + (m.geo_high[n] - m.geo_low[n]) * rng.random()
            if not (on_box_face(m, finest, n, pos) or level_not_met(m, finest, n, pos)
                    or slicemodel.too_close_to_centre(m, finest, n, pos)):
                reqs.append((n, pos)); break
    for j, (n, pos) in enumerate(reqs):
        out = os.path.join(work, f"reuse{j}")
        key = (digest, "reuse", j, n, pos)
        descr = f"request {j + 1} on one instance: normal={'xyz'[n]} pos={pos!r} fields={fl}"
        try:
            md.slice(normal=n, pos=pos, outfile=out, fformat="plotfile")
        except Exception as e:
            rec.violation(f"plotfile-format slice raised {type(e).__name__}: {descr}", key=key, witness={"exc": repr(e)[:300]})
            return
        rec.count("reused_instance_slices")
        probs, nb, nd, nu = judge(out, m, vols[finest], n, pos, finest, fl)
        if not probs and not taste_ok(out):
            probs.append("validation (with box coordinates) rejects the slice plotfile")
        if probs:
            rec.violation(f"slice plotfile is not the plane data ({probs[0][:150]}): {descr}", key=key,
                          witness={"config": descr, "differences": probs[:4]})
        else:
            rec.ok(key, j >= 1)
        shutil.rmtree(out, ignore_errors=True)
