"""C14 — tool outputs are valid tool inputs: pipelines equal the composed pure operations.
History + model: seeded operation sequences over {colander, combine (with a sibling cooked from
the same ancestor, or with an ancestor), chef (user recipe, kept)} starting from generated
plotfiles and from chk2plt output; after EVERY step the result must validate (with box
coordinates) and equal the same history applied by the reference model (names, mesh, per-box
bits, re-parsed header floats). Conservation-style: fields in = fields out +- what the
operation declares."""
import os, random, itertools
import numpy as np
from .. import common, gen, chkgen, refparse, refmodel, pools, workload

ID = "C14"
LEVEL = "exploration"
RULE = ("cases = operation histories over {colander(vars, limit), combine(with a sibling cooked "
        "from the same ancestor | with an ancestor), chef(user recipe, kept)}: all sequences of "
        "length <=2 over operation kinds with seeded parameters, seeded sequences of length 3-4, "
        "starting from generated 3D plotfiles (colander chains also 2D) with shuffled layouts, and "
        "from chk2plt output; after every step the intermediate plotfile is validated by taste "
        "and compared with the reference model. one evaluation = one history step. distinct = "
        "hash(start, history prefix); non-trivial = a step at depth >=2 that follows a different "
        "tool, or any writer after a level drop")
ASSUMPTIONS = ["reference operations in refmodel.py are the executable reading of the statement",
               "pool shim M1 with shuffled schedules", "user recipes are pure functions of the box"]
REQUIRED_OBS = {"steps": 70, "depth>=2": 30, "depth>=3": 6, "op:colander": 15, "op:chef": 20,
                "op:combine_sibling": 10, "op:combine_ancestor": 3, "after_level_drop": 2,
                "from_chk2plt": 1, "identity_checks": 2, "cookback_checks": 5, "final_outputs_consumed": 30}
TIMEOUT = {"quick": 900, "thorough": 3600}
KINDS = ["colander", "chef", "combine_sibling", "combine_ancestor"]


def cases(tier, seed):
    rng = random.Random(seed + 1400)
    hists = [[a] for a in KINDS] + [[a, b] for a in KINDS for b in KINDS]
    n_long = 40 if tier == "quick" else 6000
    for _ in range(n_long):
        hists.append([rng.choice(KINDS) for _ in range(rng.choice([3, 3, 4]))])
    cs = []
    ninputs = 3 if tier == "quick" else 6
    for hi, h in enumerate(hists):
        reps = ninputs if len(h) <= 2 else 1
        for k in range(reps):
            bf = rng.choice([2, 4])
            g = dict(seed=rng.randrange(10 ** 9), ndims=3, nlevels=1 + (hi + k) % 3, bf=bf,
                     names=["f0", "f1", "f2"], base_blocks=(1, 2) if bf == 4 else (2, 3),
                     payload=rng.choice(["random", "special", "extreme"]))
            if (hi + k) % 4 == 1:     # unusual but valid names (no blanks: chef takes kept fields as one blank-separated string)
                g["names"] = gen.odd_names(random.Random(seed * 41 + hi * 7 + k), 3 + (hi % 2), nonascii=True)
            c = {"kind": "hist", "gen": g, "history": h, "sel_seed": seed * 83 + hi * 7 + k}
            if (hi + k) % 6 == 2:     # the starting plotfile keeps its binary files in a store, linked into the level directories
                c["store"] = ["files", "files+levels"][(hi // 6) % 2]
            if (hi + k) % 6 == 5:     # ... or is reached through `<symlinked directory>/../plt00100`
                c["reach"] = True
            if (hi + k) % 6 == 4:     # maxima whose text is longer than the text of every minimum of their level
                c["long_max"] = True
            if (hi + k) % 6 == 3:     # level directories under another prefix than the default
                c["level_prefix"] = ["Lev_", "amr_level_"][(hi // 6) % 2]
            if (hi + k) % 6 == 0:     # file numbers of five and six digits at one level
                g["file_id_base"] = "mixed"
            cs.append(c)
    # scale: a box of more than a million cells (8.9 MiB per field) at the start of a cook-and-combine-back pipeline
    for k in range(1 if tier == "quick" else 3):
        cs.append({"kind": "hist", "scale": "bigbox", "gen": dict(seed=seed * 23 + 1414 + k, names=["f0", "f1", "f2"], shuffle=False),
                   "history": ["chef", "combine_sibling"] if k % 2 == 0 else ["combine_sibling", "colander"], "sel_seed": seed * 83 + 1414 + k})
    for k in range(2 if tier == "quick" else 8):     # 2D colander chains
        g = dict(seed=rng.randrange(10 ** 9), ndims=2, nlevels=2 + k % 2, bf=4, names=["f0", "f1", "f2"], base_blocks=(1, 3))
        cs.append({"kind": "hist", "gen": g, "history": ["colander", "colander", "colander"], "sel_seed": seed * 89 + k})
    for k in range(2 if tier == "quick" else 8):     # start from chk2plt output
        cs.append({"kind": "chk", "seed": rng.randrange(10 ** 9), "history": [rng.choice(KINDS[:2]), rng.choice(KINDS)],
                   "sel_seed": seed * 97 + k})
    return cs


def setup():
    pools.install()


def taste_ok(path):
    from amr_kitchen.taste import Taster
    try:
        return bool(Taster(path, boxes_coordinates=True, nofail=True, verbose=0))
    except Exception:
        return False


def recipe_src(inname, outname, kind):
    if kind == 0:
        return f'def recipe(fi, arr):\n    """{outname}"""\n    return arr[..., fi["{inname}"]] * 0.5 + 3.0\n'
    if kind == 2:       # a flag: the recipe returns booleans
        return f'def recipe(fi, arr):\n    """{outname}"""\n    return arr[..., fi["{inname}"]] > 0.5\n'
    if kind == 3:       # a bin index: the recipe returns integers
        return (f'import numpy as np\ndef recipe(fi, arr):\n    """{outname}"""\n'
                f'    return np.floor(arr[..., fi["{inname}"]] * 4.0).astype(int)\n')
    return (f'import numpy as np\ndef recipe(fi, arr):\n    """{outname}_a {outname}_b"""\n'
            f'    return np.stack([arr[..., fi["{inname}"]] ** 2, -arr[..., fi["{inname}"]]], axis=-1)\n')


def apply_recipe(exp, inname, outname, kind, kept):
    """pure chef: kept fields (in kept order) then the new field(s)"""
    e = exp.copy()
    ci = exp.names.index(inname)
    kc = [exp.names.index(k) for k in kept]
    e.names = list(kept) + ([outname] if kind in (0, 2, 3) else [outname + "_a", outname + "_b"])
    for lv in e.levels:
        for b in lv:
            a = b["arr"]
            if kind == 0:
                new = (a[..., ci] * 0.5 + 3.0)[..., None]
            elif kind == 2:
                new = (a[..., ci] > 0.5).astype(np.float64)[..., None]
            elif kind == 3:
                with np.errstate(all="ignore"):
                    new = np.floor(a[..., ci] * 4.0).astype(int).astype(np.float64)[..., None]
            else:
                new = np.stack([a[..., ci] ** 2, -a[..., ci]], axis=-1)
            b["arr"] = np.concatenate([a[..., kc], new], axis=-1) if kc else new
    return refmodel.true_extrema(e)


def run_case(case, work, rec):
    from amr_kitchen import PlotfileCooker
    from amr_kitchen.colander import Colander
    from amr_kitchen.chef import Chef
    from amr_kitchen.combine.combine import combine
    rng = random.Random(case["sel_seed"])
    if case["kind"] == "chk":
        from amr_kitchen.chk2plt.chk2plt import chk2plt
        chk = os.path.join(work, "chk00003")
        chkgen.gen_chk(case["seed"], chk, nspecies=2, nghost=1 + case["seed"] % 2, nlevels=1 + case["seed"] % 2,
                       bf=4, base_blocks=(1, 2))
        cur = os.path.join(work, "plt_from_chk")
        pools.CTL.reset(mode="inproc", seed=1)
        chk2plt(chk, species=["H2", "O2"], gradp=False, floor_massfracs=False, pltdir=cur)
        rec.count("from_chk2plt")
        if not taste_ok(cur):
            rec.violation("chk2plt output is rejected by validation (start of a pipeline)")
            return
        exp = refmodel.from_disk(cur)
        digest = common.sha("chk", case["seed"])
    else:
        m = gen.scale_model(case["scale"], **case["gen"]) if case.get("scale") else gen.gen_model(**case["gen"])
        if case.get("scale"):
            rec.count("scale_cases")
        if case.get("long_max"):
            gen.plant_long_max(m, case["gen"]["seed"])
            rec.count("long_maximum_tokens")
        cur = os.path.join(work, "plt00100")
        gen.write_plotfile(m, cur, ref_ratio_extra=rng.choice([0, 1]), trailing_blank=rng.random() < 0.7,
                           level_prefix=case.get("level_prefix", "Level_"))
        if case.get("level_prefix"):
            rec.count("start_with_other_level_prefix")
        if case.get("store"):
            workload.to_store(cur, level_links="levels" in case["store"])
            rec.count("start_with_linked_binary_files")
        if case.get("reach"):
            cur = workload.reach_link_dotdot(work, cur)
            rec.count("start_reached_through_link_dotdot")
        exp = refmodel.from_model(m)
        digest = common.sha(case["gen"])
    rec.sample({"start": case.get("gen", "chk2plt output"), "history": case["history"]})
    ancestors = [(cur, exp)]
    dropped = False
    prev_kind = None
    counter = 0
    for depth, kind in enumerate(case["history"], 1):
        counter += 1
        out = workload.out_path(work, f"step{depth}", depth, rec)
        names = exp.names
        finest = len(exp.levels) - 1
        pools.CTL.reset(mode="inproc" if depth % 3 else "fork", seed=rng.randrange(10 ** 6))
        descr = None
        check_mm = True
        try:
            if kind == "colander" or exp.ndims == 2:
                kind = "colander"
                keep = rng.sample(names, rng.randint(1, len(names)))
                limit = rng.choice([None, finest, max(finest - 1, 0)])
                identity = rng.random() < 0.25
                if identity:
                    keep, limit = ["all"], None
                descr = f"colander(variables={keep}, limit_level={limit})"
                Colander(plotfile=cur, limit_level=limit, output=out, variables=keep).strain()
                comps = list(range(len(names))) if identity else [names.index(k) for k in keep]
                new_exp = refmodel.select(exp, comps, limit=limit)
                if limit is not None and limit < finest:
                    dropped = True
                if identity:
                    rec.count("identity_checks")
            elif kind == "chef":
                inname = rng.choice(names)
                outname = f"n{depth}x{counter}"
                rk = rng.randrange(4)
                if rk >= 2:
                    rec.count("chef_steps_with_a_recipe_that_returns_no_float64")
                kept = rng.sample(names, rng.randint(0, len(names)))
                rp = os.path.join(work, f"recipe{depth}.py")
                with open(rp, "w") as f:
                    f.write(recipe_src(inname, outname, rk))
                descr = f"chef(recipe on {inname} -> {outname}{'_a/_b' if rk == 1 else ' (flag)' if rk == 2 else ' (bin index)' if rk == 3 else ''}, kept={kept})"
                Chef(plotfile=cur, recipe=rp, outfile=out, kept_fields=" ".join(kept) if kept else None,
                     serial=rng.random() < 0.5).cook()
                new_exp = apply_recipe(exp, inname, outname, rk, kept)
            elif kind == "combine_sibling":
                # cook a sibling from the current plotfile, then combine it back
                inname = rng.choice(names)
                outname = f"s{depth}x{counter}"
                rp = os.path.join(work, f"recipe_s{depth}.py")
                with open(rp, "w") as f:
                    f.write(recipe_src(inname, outname, 0))
                sib = os.path.join(work, f"sib{depth}")
                Chef(plotfile=cur, recipe=rp, outfile=sib, serial=True).cook()
                sib_exp = apply_recipe(exp, inname, outname, 0, [])
                descr = f"combine(current, sibling cooked from it: {outname})"
                combine(PlotfileCooker(cur), PlotfileCooker(sib), pltout=out)
                new_exp = refmodel.concat(exp, list(range(len(names))), sib_exp, [0])
                rec.count("cookback_checks")
                check_mm = False       # rows come from two sources with different text formats
            elif kind == "combine_ancestor":
                # an ancestor on the same levels whose fields are not all present already
                cands = [(p, e) for p, e in ancestors if len(e.levels) == len(exp.levels)
                         and any(n not in names for n in e.names)]
                if not cands:
                    # nothing new to take: rename through a cook so that there is
                    inname = rng.choice(names)
                    outname = f"a{depth}x{counter}"
                    rp = os.path.join(work, f"recipe_a{depth}.py")
                    with open(rp, "w") as f:
                        f.write(recipe_src(inname, outname, 0))
                    descr = f"chef({inname} -> {outname}) [no combinable ancestor]"
                    Chef(plotfile=cur, recipe=rp, outfile=out, serial=True).cook()
                    new_exp = apply_recipe(exp, inname, outname, 0, [])
                    kind = "chef"
                else:
                    ap, ae = rng.choice(cands)
                    take = [n for n in ae.names if n not in names]
                    shared = [n for n in ae.names if n in names]
                    if shared and len(names) >= 2 and rng.random() < 0.7:
                        # both selections given: a field the two plotfiles share is left out of the first selection
                        # and named in the second - the ancestor's version of it is wanted
                        sfield = rng.choice(shared)
                        v1 = [n for n in names if n != sfield]
                        v2 = [sfield] + take
                        descr = f"combine(current, ancestor {os.path.basename(ap)}, vars1={v1}, vars2={v2})"
                        combine(PlotfileCooker(cur), PlotfileCooker(ap), pltout=out, vars1=" ".join(v1), vars2=" ".join(v2))
                        new_exp = refmodel.concat(exp, [names.index(n) for n in v1], ae, [ae.names.index(n) for n in v2])
                        rec.count("combine_with_both_selections")
                    else:
                        descr = f"combine(current, ancestor {os.path.basename(ap)}) taking {take}"
                        combine(PlotfileCooker(cur), PlotfileCooker(ap), pltout=out)
                        new_exp = refmodel.concat(exp, list(range(len(names))), ae, [ae.names.index(n) for n in take])
                    check_mm = False
        except Exception as e:
            rec.violation(f"step {depth} raised {type(e).__name__}: {descr or kind} after {case['history'][:depth - 1]}",
                          key=(digest, tuple(case["history"][:depth]), case["sel_seed"]),
                          witness={"history": case["history"], "step": depth, "operation": descr, "exc": repr(e)[:300]})
            return
        rec.count("steps"); rec.count("op:" + kind)
        if depth >= 2:
            rec.count("depth>=2")
        if depth >= 3:
            rec.count("depth>=3")
        if dropped and depth >= 2:
            rec.count("after_level_drop")
        key = (digest, tuple(case["history"][:depth]), case["sel_seed"])
        probs = refmodel.compare(out, new_exp, check_minmax=check_mm)
        if not probs and not check_mm:
            # rows must still be numerically the sources' rows
            probs = refmodel.compare(out, new_exp, check_minmax=True)
        if not probs and not taste_ok(out):
            probs.append("validation (with box coordinates) rejects the intermediate plotfile")
        if probs:
            rec.violation(f"step {depth} ({descr}) does not equal the pure operation on the contents "
                          f"({probs[0][:140]}); earlier steps: {case['history'][:depth - 1]}", key=key,
                          witness={"history": case["history"], "step": depth, "operation": descr, "differences": probs[:4]})
            return
        rec.ok(key, (depth >= 2 and prev_kind != kind) or (dropped and depth >= 2))
        prev_kind = kind
        cur, exp = out, new_exp
        ancestors.append((cur, exp))
    # the final output is a valid input for the reading tools too (reader, whip, pestle, mandoline, menu)
    if exp.ndims == 3:
        mm = refmodel.to_model(exp)
        fidx = rng.randrange(len(exp.names))
        fname = exp.names[fidx]
        key = (digest, tuple(case["history"]), case["sel_seed"], "consumers")
        probs = []
        pools.CTL.reset(mode="inproc", seed=rng.randrange(10 ** 6))
        try:
            pck = PlotfileCooker(cur, maxmins=True, ghost=True)
            lv = rng.randrange(mm.nlevels); bi = rng.randrange(len(mm.boxes[lv]))
            idx = [tuple(int(v) for v in a) for a in pck.cells[lv]["indexes"][bi]]
            want = {b.key(): k for k, b in enumerate(mm.boxes[lv])}[(idx[0], idx[1])]
            if not refparse.biteq(pck[fname][lv][bi], mm.data[lv][want][..., fidx]):
                probs.append("reader returns other data than the pipeline result")
            wout = os.path.join(work, "final_ugrid.npy")
            with common.argv(["whip", "-v", fname, "-y", "-o", wout, cur]):
                common.repo_module("amr_kitchen.whip.cli").main()
            if not refparse.biteq(np.load(wout), gen.covering(mm, fidx)):
                probs.append("whip's uniform grid of the final plotfile is not the covering grid of the expected contents")
            from amr_kitchen.pestle.pestle import volume_integral
            got = volume_integral(pck, fname)
            tot = mag = 0.0
            for l2 in range(mm.nlevels):
                dV = float(np.prod(mm.dx[l2]))
                for b2 in range(len(mm.boxes[l2])):
                    t = mm.data[l2][b2][..., fidx][gen.uncovered_mask(mm, l2, b2, mm.nlevels - 1)] * dV
                    tot += float(np.sum(t)); mag += float(np.sum(np.abs(t)))
            # judged when no intermediate sum can overflow; absolute slack for sums of denormals (the
            # tool multiplies the sum by the cell volume, the model every term: each product rounds
            # to the denormal grid)
            finite = np.isfinite(tot) and np.isfinite(mag) and mag / min(1.0, dV) < 1e290
            if finite and not abs(got - tot) <= 1e-10 * mag + 1e-300:
                probs.append(f"pestle integral of the final plotfile {got!r} != {tot!r}")
            from amr_kitchen.mandoline import Mandoline
            sl = Mandoline(cur, fields=[fname], serial=True, verbose=0).slice(normal=2, pos=None, fformat="return")
            if np.asarray(sl[fname]).shape != (mm.grid_sizes[-1][1], mm.grid_sizes[-1][0]):
                probs.append("mandoline slice of the final plotfile has the wrong shape")
            with common.argv(["menu", cur, "-m"]):
                common.repo_module("amr_kitchen.menu.cli").main()
        except (Exception, SystemExit) as e:
            probs.append(f"a reading tool raised {type(e).__name__} on the pipeline output: {str(e)[:150]}")
        rec.count("final_outputs_consumed")
        if probs:
            rec.violation(f"pipeline output is not a valid input for the reading tools ({probs[0][:160]}); history {case['history']}",
                          key=key, witness={"history": case["history"], "problems": probs[:4], "field": fname})
        else:
            rec.ok(key, len(case["history"]) >= 2)
