"""C13 — tools never touch their inputs and report failures instead of returning.
Monitors per tool invocation, in a per-case sandbox S/{in, cwd, out}: M3 (a) content+stat
snapshot of every input tree and listing of S before/after, (b) audit-hook log of every
write-class event (catches transient writes), (c) strace cross-check of console forms
(thorough); M4 fault injection at every individual open-for-write, mkdir and write call of the
writers (one-shot, sticky), plus missing-binary and unknown-field failure forms."""
import re, os, sys, random, shutil, json, subprocess
import numpy as np
from .. import common, gen, chkgen, pools, fsaudit, faults, refmodel, refparse, scenarios

ID = "C13"
LEVEL = "fault_enumeration"
RULE = ("cases = every writer (colander, combine, chef, mandoline array/plotfile/image, whip, "
        "chk2plt, marinate) and reader-only tool (taste, menu, minuterie, pestle) x {API, entry "
        "point} x output {explicit, documented default} x path style {absolute, relative from "
        "the parent, ./-prefixed, trailing slash, relative from elsewhere} on generated inputs in "
        "a sandbox; failure forms: unknown field, a missing binary file, and a fault injected at "
        "every individual open-for-write / mkdir / write call of the run (enumerated from a "
        "counting run). one evaluation = one invocation judged by snapshot + audit log (+ outcome "
        "for failure forms). distinct = hash(tool, form, path style, fault point); non-trivial = "
        "default-output or trailing-slash form, or an injected fault")
ASSUMPTIONS = ["faults are injected at Python-level open/mkdir/write calls (not short writes, fsync or "
               "close-time errors)", "an invocation whose requested output is an input is out of scope",
               "a fault the stack absorbs (e.g. zipfile retrying an open) is fine when the output equals the "
               "fault-free output", "pool shim M1 in-process so that fault points are deterministic"]
REQUIRED_OBS = {"invocations": 150, "set:tools": 11, "default_output_forms": 30, "trailing_slash_forms": 30,
                "fault_points_injected": 150, "faults_surfaced": 120, "missing_binary_forms": 6,
                "audit_events": 500, "realpool_faults_surfaced": 10}
CHAIN = {"quick": 0, "thorough": 0}     # every invocation form already runs in one process per case
TIMEOUT = {"quick": 900, "thorough": 3600}

RECIPE = scenarios.RECIPE
STYLES = ["abs", "abs_slash", "rel_parent", "rel_dot", "rel_slash", "rel_else", "rel_else_slash", "dot", "symlink",
          "symlink_blank"]
WRITERS = ["colander", "combine", "chef", "mandoline_array", "mandoline_plotfile", "mandoline_image",
           "whip", "chk2plt", "marinate"]
READERS = ["taste", "menu", "minuterie", "pestle"]


def cases(tier, seed):
    cs = []
    k = 0
    for tool in WRITERS + READERS:
        for form in ("api", "cli"):
            for output in (("explicit", "default") if tool in WRITERS else ("none",)):
                styles = STYLES if tier == "thorough" else (STYLES if output == "default" else ["abs", "rel_slash", "rel_else", "dot", "symlink_blank"])
                cs.append({"kind": "forms", "tool": tool, "form": form, "output": output, "styles": styles,
                           "seed": seed * 100 + 3 + (k % 3)})
                k += 1
    for tool in ["colander", "combine", "combine_byfile", "chef", "mandoline_array", "mandoline_plotfile", "whip",
                 "chk2plt", "marinate"]:
        nchunks = 4
        for c in range(nchunks):
            cs.append({"kind": "faults", "tool": tool, "seed": seed * 100 + 5, "chunk": [c, nchunks],
                       "cap": 400 if tier == "quick" else 4000})
    # scale: combine on a level of 576 boxes (a sample of its several thousand fault points)
    for c in ((seed % 8,) if tier == "quick" else range(8)):
        cs.append({"kind": "faults", "tool": "combine_byfile", "seed": seed * 100 + 5, "chunk": [c, 8], "many": True,
                   "cap": 200 if tier == "quick" else 600})
    # the same through the console entry points (argument parsing, exit status): a sample of the points
    for tool in ["colander", "combine", "chef", "mandoline_array", "mandoline_plotfile", "chk2plt"]:
        for c in ((seed % 6,) if tier == "quick" else range(6)):
            cs.append({"kind": "faults", "tool": tool, "seed": seed * 100 + 5, "chunk": [c, 6], "form": "cli",
                       "cap": 150 if tier == "quick" else 1500})
    for tool in ["colander", "combine", "chef", "mandoline_array", "whip", "pestle", "chk2plt"]:
        cs.append({"kind": "missing", "tool": tool, "seed": seed * 100 + 9})
    # tools that need every byte of every FAB (readers of single components never touch the cut tail,
    # and whip / the per-file iterators use 'parse failure = end of file' by design: not driven here)
    for tool in ["colander", "combine", "combine_byfile", "chef", "chk2plt", "whip", "pestle"]:
        if tool not in ("whip", "pestle"):     # (a cut inside the last FAB: only for tools that read every component)
            cs.append({"kind": "truncated", "tool": tool, "seed": seed * 100 + 17})
        if tool != "chk2plt":
            for damage in ("cut_at_box:1", "cut_at_box:2", "empty"):
                cs.append({"kind": "truncated", "tool": tool, "seed": seed * 100 + 17, "damage": damage})
    # a level header cut short inside its per-box tables (whole rows of minima / maxima missing): tools that copy
    # the tables must notice; tools that never read them write what they write from the intact input
    for tool in ["colander", "combine", "combine_byfile", "chef", "mandoline_plotfile"]:
        for damage in ("cellh_cut:max", "cellh_cut:min"):
            cs.append({"kind": "truncated", "tool": tool, "seed": seed * 100 + 17, "damage": damage})
    if tier == "thorough":
        for tool in ["colander", "chef", "marinate", "chk2plt", "mandoline_array", "combine", "whip"]:
            cs.append({"kind": "strace", "tool": tool, "seed": seed * 100 + 13})
    # faults inside real pool workers (the exception has to travel back through multiprocessing / pathos)
    for tool in ["colander", "combine", "combine_byfile", "chef", "chk2plt", "mandoline_plotfile", "whip"]:
        cs.append({"kind": "realpool_faults", "tool": tool, "seed": seed * 100 + 21,
                   "max_targets": 2 if tier == "quick" else 12})
    return cs


def setup():
    pools.install()
    fsaudit.install()


# ------------------------------------------------------------------ sandbox and invocations
class Sandbox:
    def __init__(self, work, seed, tiny=False, many=False):
        self.root = os.path.join(work, "S")
        self.ind = os.path.join(self.root, "in")
        self.cwd = os.path.join(self.root, "cwd")
        self.out = os.path.join(self.root, "out")
        for d in (self.ind, self.cwd, self.out):
            os.makedirs(d)
        kw = dict(seed=seed, ndims=3, nlevels=2, bf=4, base_blocks=(1, 2), names=["f0", "f1", "f2"], maxfiles=2)
        if tiny:
            kw.update(nlevels=1, base_blocks=(1, 1), bf=2, base=[4, 4, 2], maxsz=2)
        self.m = gen.gen_model(**kw)
        self.plt = os.path.join(self.ind, "plt00010")
        gen.write_plotfile(self.m, self.plt)
        kw2 = dict(kw); kw2.update(names=["g0", "g1"], data_seed=seed + 1)
        self.m2 = gen.gen_model(**kw2)
        self.plt2 = os.path.join(self.ind, "plt00020")
        gen.write_plotfile(self.m2, self.plt2)
        # a pair stored in header order with identical layouts: combine's sequential file-by-file mode
        kw3 = dict(kw); kw3.update(shuffle=False)
        if many:      # scale: 576 one-cell boxes at the level, four binary files, stored in header order
            kw3.update(nlevels=1, bf=1, maxsz=1, base=[8, 8, 9], nfiles=4)
            kw3.pop("base_blocks", None)
        self.m3 = gen.gen_model(**kw3)
        self.plt3 = os.path.join(self.ind, "plt00030")
        gen.write_plotfile(self.m3, self.plt3)
        kw4 = dict(kw3); kw4.update(names=["g0", "g1"], data_seed=seed + 2)
        self.plt4 = os.path.join(self.ind, "plt00040")
        gen.write_plotfile(gen.gen_model(**kw4), self.plt4)
        self.chk = os.path.join(self.ind, "chk00005")
        ck = dict(nspecies=2, nghost=1, nlevels=1 if tiny else 2, bf=2 if tiny else 4, base_blocks=(1, 1) if tiny else (1, 2))
        # every other checkpoint holds cells whose species are all exactly zero: with the (default) rescaling of the
        # mass fractions the conversion meets 0 / 0 there - whatever it does about it must not eat an I/O error
        chkgen.gen_chk(seed, self.chk, zero_y=(seed % 2 == 1), **ck)
        self.recipe = os.path.join(self.root, "recipe_sq.py")      # not an input tree: a user script
        with open(self.recipe, "w") as f:
            f.write(RECIPE)
        self.inputs = [self.plt, self.plt2, self.plt3, self.plt4, self.chk]
        # symbolic links to the inputs, kept elsewhere (made here, before any audit starts)
        for d in ("links", "dir with blank"):
            os.makedirs(os.path.join(self.root, d))
            for path in self.inputs:
                os.symlink(path, os.path.join(self.root, d, os.path.basename(path)))

    def styled(self, path, style):
        """(argument string, cwd) for an input path in the given style"""
        name = os.path.basename(path)
        if style == "abs":
            return path, self.cwd
        if style == "abs_slash":
            return path + "/", self.cwd
        if style == "rel_parent":
            return name, self.ind
        if style == "rel_dot":
            return "./" + name, self.ind
        if style == "rel_slash":
            return name + "/", self.ind
        if style == "rel_else":
            return "../in/" + name, self.cwd
        if style == "rel_else_slash":
            return "../in/" + name + "/", self.cwd
        if style == "dot":
            # the tool is started from inside the input, which is named '.'
            return ".", path
        if style in ("symlink", "symlink_blank"):
            # the input is reached through a symbolic link kept elsewhere (a directory whose name holds a blank)
            link = os.path.join(self.root, "links" if style == "symlink" else "dir with blank", name)
            return (link, self.cwd) if style == "symlink" else (os.path.join("..", "dir with blank", name), self.cwd)
        raise ValueError(style)


def invoke(tool, form, sb, style, outarg, unknown=False):
    """run one tool invocation in-process; returns nothing, raises what the tool raises.
    outarg: explicit output path or None for the documented default"""
    inp = sb.chk if tool == "chk2plt" else sb.plt
    arg, cwd = sb.styled(inp, style)
    field = "nope" if unknown else "f1"
    with common.chdir(cwd):
        if tool == "colander":
            # half of the path styles: every field kept, only levels strained out (the README example) -
            # the one selection for which copying or linking whole input files would be possible
            keep_all = "slash" in style or style.endswith("else")
            if unknown:
                # asked not to tolerate missing variables (python class only: the entry point has no such
                # option): one unknown name among known ones must be refused
                from amr_kitchen.colander import Colander
                Colander(plotfile=arg, output=outarg, variables=["f2", "nope", "f0"], allow_missing=False).strain()
            elif form == "api":
                from amr_kitchen.colander import Colander
                if keep_all:
                    Colander(plotfile=arg, output=outarg, variables=["all"], limit_level=0).strain()
                else:
                    Colander(plotfile=arg, output=outarg, variables=["f2", "f0"]).strain()
            else:
                with common.argv(["colander", arg, "-v"] + (["all", "-l", "0"] if keep_all else ["f2", "f0"]) + ["-o", outarg]):
                    common.repo_module("amr_kitchen.colander.cli").main()
        elif tool == "combine_byfile":
            from amr_kitchen import PlotfileCooker
            from amr_kitchen.combine.combine import combine
            a3, _ = sb.styled(sb.plt3, style)
            a4, _ = sb.styled(sb.plt4, style)
            combine(PlotfileCooker(a3), PlotfileCooker(a4), pltout=outarg, vars1="f0 f2", vars2="g1")
        elif tool == "combine":
            # the second path without the trailing slash: the two defaults then compose differently
            arg2, _ = sb.styled(sb.plt2, "abs" if style == "dot" else style.replace("_slash", "") if style != "rel_slash" else "rel_parent")
            if form == "api":
                from amr_kitchen import PlotfileCooker
                from amr_kitchen.combine.combine import combine
                combine(PlotfileCooker(arg), PlotfileCooker(arg2), pltout=outarg, vars1="f0", vars2="g1")
            else:
                a = ["combine", "-p1", arg, "-p2", arg2, "-v1", "f0", "-v2", "g1"]
                if outarg:
                    a += ["-o", outarg]
                with common.argv(a):
                    common.repo_module("amr_kitchen.combine.cli").main()
        elif tool == "chef":
            if form == "api":
                from amr_kitchen.chef import Chef
                Chef(plotfile=arg, recipe=sb.recipe, outfile=outarg, kept_fields="f2", serial=False).cook()
            else:
                a = ["chef", "--recipe", sb.recipe, "--kept_fields", "f2", arg]
                if outarg:
                    a[1:1] = ["--outdir", outarg]
                with common.argv(a):
                    common.repo_module("amr_kitchen.chef.cli").main()
        elif tool.startswith("mandoline"):
            ff = tool.split("_")[1]
            if form == "api":
                from amr_kitchen.mandoline import Mandoline
                md = Mandoline(arg, fields=[field], serial=False, verbose=0)
                md.slice(normal=2, pos=None, outfile=outarg, fformat=ff)
            else:
                a = ["mandoline", "-n", "2", "-v", field, "-f", ff, arg]
                if outarg:
                    a[1:1] = ["-o", outarg]
                with common.argv(a):
                    common.repo_module("amr_kitchen.mandoline.cli").main()
        elif tool == "whip":
            a = ["whip", "-v", field, "-y", arg]
            if outarg:
                a[1:1] = ["-o", outarg]
            with common.argv(a):
                common.repo_module("amr_kitchen.whip.cli").main()
        elif tool == "chk2plt":
            if form == "api":
                from amr_kitchen.chk2plt.chk2plt import chk2plt
                if os.path.basename(sb.refY) == "plt00005":
                    # the plotfile of the checkpoint's own step is given as the source of the species names: an input
                    # of this invocation that sits where the default output would go
                    chk2plt(arg, target_plotfile=sb.refY, gradp=True, species_reactions=True, pltdir=outarg)
                else:
                    chk2plt(arg, species=["H2", "O2"], gradp=True, species_reactions=True, pltdir=outarg)
            else:
                ref, _ = sb.styled(sb.plt, "abs")
                a = ["chk2plt", "-c", arg, "-p", sb.refY]
                if outarg:
                    a += ["-o", outarg]
                with common.argv(a):
                    common.repo_module("amr_kitchen.chk2plt.cli").main()
        elif tool == "marinate":
            with common.argv(["marinate", arg]):
                common.repo_module("amr_kitchen.marinate").main()
        elif tool == "taste":
            if form == "api":
                from amr_kitchen.taste import Taster
                Taster(arg, boxes_coordinates=True, binary_data=True, verbose=0)
            else:
                with common.argv(["taste", arg]):
                    common.repo_module("amr_kitchen.taste.cli").main()
        elif tool == "menu":
            with common.argv(["menu", arg] + (["-m"] if form == "api" else [])):
                common.repo_module("amr_kitchen.menu.cli").main()
        elif tool == "minuterie":
            with common.argv(["minuterie", arg]):
                common.repo_module("amr_kitchen.minuterie").main()
        elif tool == "pestle":
            if form == "api":
                from amr_kitchen import PlotfileCooker
                from amr_kitchen.pestle.pestle import volume_integral
                volume_integral(PlotfileCooker(arg, ghost=True), field)
            else:
                with common.argv(["pestle", "-v", field, arg]):
                    common.repo_module("amr_kitchen.pestle.cli").main()
        else:
            raise ValueError(tool)


def explicit_out(tool, sb, rel):
    name = {"mandoline_array": "slice_out", "mandoline_image": "slice_img.png", "whip": "ugrid_out.npy"}.get(tool, "result_" + tool)
    p = os.path.join(sb.out, name)
    return (os.path.relpath(p, rel) if rel else p), p


def allowed_roots(tool, sb, out_abs):
    if out_abs:
        return [out_abs, out_abs + ".npz", out_abs + ".npy", out_abs + ".png"]
    return None


def default_prefixes(tool, sb, cwd, style=None):
    """path prefixes of the documented default outputs (beside the input / in the cwd); for an input reached
    through a symbolic link: beside the link or beside what it points to"""
    if style in ("symlink", "symlink_blank"):
        d = os.path.join(sb.root, "links" if style == "symlink" else "dir with blank")
        alt = Sandbox.__new__(Sandbox)
        alt.plt, alt.plt2, alt.chk = (os.path.join(d, os.path.basename(x)) for x in (sb.plt, sb.plt2, sb.chk))
        return default_prefixes(tool, sb, cwd) + default_prefixes(tool, alt, cwd)
    plt, chk = sb.plt, sb.chk
    if tool == "chef":
        return [plt + "_ck"]
    if tool == "combine":
        return [os.path.join(cwd, os.path.basename(sb.plt) + os.path.basename(sb.plt2))]
    if tool.startswith("mandoline"):
        return [os.path.join(os.path.dirname(plt), "S")]
    if tool == "marinate":
        return [plt + ".pkl"]
    if tool == "chk2plt":
        return [os.path.join(os.path.dirname(chk), os.path.basename(chk).replace("chk", "plt"))]
    if tool == "whip":
        return [os.path.join(cwd, "f1_ugrid_")]
    return []


def make_refY(sb):
    ref = gen.gen_model(1, ndims=3, nlevels=1, names=["density", "Y(H2)", "Y(O2)"], bf=4, base_blocks=(1, 1))
    # every other time the reference plotfile is the plotfile of the checkpoint's own step (chk00005 / plt00005):
    # the name the default output of the conversion would take
    sb.refY = os.path.join(sb.ind, "plt00005" if getattr(sb, "seed", 0) % 2 == 0 else "pltrefY")
    gen.write_plotfile(ref, sb.refY)
    sb.inputs.append(sb.refY)


def audit_invocation(rec, sb, work, descr, key, call, out_abs, reader, nontrivial, expect_fail=False, defaults=None):
    """run call() under snapshot + audit log; judge confinement. returns (raised?, exception)"""
    snaps = {p: fsaudit.snapshot(p) for p in sb.inputs}
    before = fsaudit.listing(sb.root)
    log = os.path.join(work, "audit.log")
    if os.path.exists(log):
        os.remove(log)
    fsaudit.start(log)
    exc = None
    try:
        call()
    except (Exception, SystemExit) as e:
        if not (isinstance(e, SystemExit) and e.code in (0, None)):
            exc = e
    finally:
        fsaudit.stop()
    evs = fsaudit.events(log)
    rec.count("audit_events", len(evs))
    probs = []
    for p, s0 in snaps.items():
        d = fsaudit.diff_snap(s0, fsaudit.snapshot(p))
        for x in d[:3]:
            probs.append(f"input {os.path.basename(p)} {x}")
    for ev, ap, raw in evs:
        if fsaudit.under(ap, sb.root) and any(fsaudit.under(ap, i) for i in sb.inputs):
            if ev == "open-readwrite":
                rec.count("inputs_opened_readwrite")      # harmless unless the snapshot shows a change
                continue
            probs.append(f"write-class event inside an input: {ev} {os.path.relpath(ap, sb.root)}")
    after = fsaudit.listing(sb.root)
    new = [p for p in after if p not in before or after[p] != before[p]]
    new = [p for p in new if after[p] != ("d",) or p not in before]
    for p in new:
        if any(fsaudit.under(p, i) for i in sb.inputs):
            probs.append(f"created/changed inside an input: {os.path.relpath(p, sb.root)}")
        elif reader:
            probs.append(f"reader-only tool wrote {os.path.relpath(p, sb.root)}")
        elif out_abs and not any(fsaudit.under(p, r) for r in allowed_roots(None, sb, out_abs)):
            probs.append(f"wrote outside the requested output: {os.path.relpath(p, sb.root)}")
        elif defaults is not None and not any(p.startswith(d) for d in defaults):
            probs.append(f"wrote outside the documented default output: {os.path.relpath(p, sb.root)}")
    probs = list(dict.fromkeys(probs))
    if probs:
        rec.violation(f"tool touched its input or wrote outside its output ({probs[0][:140]}): {descr}", key=key,
                      witness={"invocation": descr, "problems": probs[:6], "raised": repr(exc)[:200] if exc else None})
        sb.dirty = any(p.startswith("input ") or "inside an input" in p for p in probs)
    else:
        rec.ok(key, nontrivial)
    return exc, new


def clean_outputs(sb, new):
    for p in sorted(new, key=len, reverse=True):
        if os.path.isdir(p) and not os.path.islink(p):
            shutil.rmtree(p, ignore_errors=True)
        elif os.path.exists(p):
            os.remove(p)


def run_forms(case, work, rec):
    tool, form, output = case["tool"], case["form"], case["output"]
    sb = Sandbox(work, case["seed"])
    make_refY(sb)
    rec.seen("tools", tool)
    rec.sample({"tool": tool, "form": form, "output": output, "styles": case["styles"]})
    reader = tool in READERS
    for style in case["styles"]:
        if tool == "marinate" and output == "explicit":
            continue      # marinate has no output argument
        for outstyle in (("abs", "rel") if output == "explicit" else ("default",)):
            arg, cwd = sb.styled(sb.plt, style)
            out_abs = None
            outarg = None
            if output == "explicit":
                outarg, out_abs = explicit_out(tool, sb, cwd if outstyle == "rel" else None)
            if tool == "colander" and outarg is None:
                continue   # colander requires an output
            if style == "dot" and output == "default" and tool in ("combine", "whip"):
                continue   # their documented default is the current directory - here the input itself, by request
            key = (tool, form, output, style, outstyle)
            descr = f"{tool} via {form}, input path style {style}, output {outstyle}"
            pools.CTL.reset(mode="inproc", seed=case["seed"])
            rec.count("invocations")
            if output == "default":
                rec.count("default_output_forms")
            if "slash" in style:
                rec.count("trailing_slash_forms")
            if style in ("dot", "symlink", "symlink_blank"):
                rec.count("forms:" + style)
            exc, new = audit_invocation(rec, sb, work, descr, key,
                                        lambda: invoke(tool, form, sb, style, outarg), out_abs, reader,
                                        output == "default" or "slash" in style,
                                        defaults=default_prefixes(tool, sb, cwd, style) if output == "default" else None)
            if exc is not None:
                rec.count("raised:" + type(exc).__name__)
                rec.seen("raised_forms", f"{tool}/{form}/{output}/{style}: {type(exc).__name__}")
            clean_outputs(sb, new)
            if getattr(sb, "dirty", False):      # an input was damaged: continue on a fresh sandbox
                nsb = getattr(run_forms, "_n", 0) + 1
                run_forms._n = nsb
                sb = Sandbox(os.path.join(work, f"fresh{nsb}"), case["seed"])
                make_refY(sb)
    # unknown field: whatever the tool does, inputs stay untouched
    if tool in ("mandoline_array", "pestle", "whip", "mandoline_plotfile") or (tool == "colander" and form == "api"
                                                                           and output == "explicit"):
        outarg, out_abs = explicit_out(tool, sb, None) if tool != "pestle" else (None, None)
        key = (tool, form, "unknown-field")
        pools.CTL.reset(mode="inproc", seed=1)
        rec.count("invocations")
        exc, new = audit_invocation(rec, sb, work, f"{tool} via {form} with an unknown field", key,
                                    lambda: invoke(tool, form, sb, "abs", outarg, unknown=True), out_abs, reader, True)
        if exc is None:
            rec.violation(f"{tool} via {form}: unknown field did not produce an error", key=key + ("noerr",))
        clean_outputs(sb, new)


def out_digest(paths):
    return [refmodel.tree_digest(p) if os.path.exists(p) else "absent" for p in paths]


def run_faults(case, work, rec):
    tool = case["tool"]
    sb = Sandbox(work, case["seed"], tiny=not case.get("many"), many=bool(case.get("many")))
    if case.get("many"):
        rec.count("scale_cases")
    make_refY(sb)
    rec.seen("tools", tool)
    outarg, out_abs = (None, None) if tool == "marinate" else explicit_out(tool, sb, None)
    outs = [out_abs, out_abs + ".npz", out_abs + ".npy"] if out_abs else [sb.plt + ".pkl"]

    form = case.get("form", "api")

    def call():
        invoke(tool, form, sb, "abs", outarg)
    if form == "cli":
        rec.count("fault_runs_through_entry_points")
    # counting run (fault-free)
    pools.CTL.reset(mode="inproc", default="identity")
    faults.install()
    faults.S.reset()
    try:
        call()
        npoints = faults.S.n
        kinds = list(faults.S.kinds)
    finally:
        faults.uninstall()
    ref = out_digest(outs)
    for p in outs:
        if os.path.isdir(p):
            shutil.rmtree(p)
        elif os.path.exists(p):
            os.remove(p)
    rec.sample({"tool": tool, "fault_points": npoints, "opens": kinds.count("open"), "writes": kinds.count("write"),
                "mkdirs": kinds.count("mkdir")})
    rec.count("fault_points_counted", npoints if case["chunk"][0] == 0 else 0)
    c, nchunks = case["chunk"]
    points = list(range(1, npoints + 1))[c::nchunks]
    if len(points) > case["cap"]:
        rng = random.Random(case["seed"])
        keep = [p for p in points if kinds[p - 1] != "write"]
        points = sorted(set(keep + rng.sample(points, case["cap"] - min(len(keep), case["cap"]))))
    snaps0 = {p: fsaudit.snapshot(p) for p in sb.inputs}
    # every point with an errno-carrying error; with few points (or every third point otherwise) also with an
    # OSError built from a message only (numpy's short-write error carries no errno)
    # and every write point (every second one when there are many) as a DEFERRED error: write() accepts the data, the
    # error comes when the buffer is flushed (flush / close / end of the with block) - what a full disk does to a
    # header smaller than the I/O buffer
    wpts = [k for k in points if kinds[k - 1] == "write"]
    runs = [(k, False) for k in points] + [(k, True) for k in (points if len(points) <= 12 else points[::3])] + \
           [(k, "deferred") for k in (wpts if len(wpts) <= 12 else wpts[::2])]
    for k, plain in runs:
        pools.CTL.reset(mode="inproc", default="identity")
        faults.install()
        faults.S.reset(fail_at=k)
        deferred = plain == "deferred"
        plain = plain is True
        faults.S.plain = plain
        faults.S.deferred = deferred
        exc = None
        try:
            call()
        except (Exception, SystemExit) as e:
            # an entry point that ends with exit status 0 has returned normally as far as its caller can tell
            if not (isinstance(e, SystemExit) and e.code in (0, None)):
                exc = e
            else:
                rec.count("entry_point_exit_status_zero_under_fault")
        finally:
            faults.uninstall()
        inj = faults.S.injected
        key = (tool, form, "fault", k, "plain" if plain else "deferred" if deferred else "errno")
        if plain:
            rec.count("fault_points_injected_without_errno")
        if deferred and inj is not None:
            rec.count("fault_points_injected_deferred")
        if inj is None:
            rec.undecided("fault point not reached on replay (non-deterministic invocation)")
        else:
            rec.count("fault_points_injected")
            rec.seen("fault_kinds", f"{tool}:{inj[0]}")
            descr = f"{tool}{' entry point' if form == 'cli' else ''}: fault #{k}/{npoints}{' (OSError without errno)' if plain else ' (error deferred to flush / close)' if deferred else ''} ({inj[0]} on {os.path.relpath(inj[1], sb.root) if inj[1].startswith(sb.root) else inj[1]})"
            probs = []
            for p, s0 in snaps0.items():
                d = fsaudit.diff_snap(s0, fsaudit.snapshot(p))
                if d:
                    probs.append(f"input {os.path.basename(p)} {d[0]}")
            if exc is not None:
                rec.count("faults_surfaced")
            else:
                got = out_digest(outs)
                if got == ref:
                    rec.count("faults_absorbed_output_identical")
                else:
                    probs.append("the tool returned normally although a write failed, and its output differs from "
                                 "the fault-free output (swallowed failure)")
            if probs:
                rec.violation(f"I/O failure not reported or input touched ({probs[0][:120]}): {descr}", key=key,
                              witness={"fault": descr, "problems": probs[:3]})
            else:
                rec.ok(key, True)
        for p in outs:
            if os.path.isdir(p):
                shutil.rmtree(p, ignore_errors=True)
            elif os.path.exists(p):
                os.remove(p)


def run_missing(case, work, rec):
    tool = case["tool"]
    sb = Sandbox(work, case["seed"])
    make_refY(sb)
    rec.seen("tools", tool)
    # remove one binary file of the (copy of the) input: the tool must fail loudly
    if tool == "chk2plt":
        victim = sorted(f for f in os.listdir(os.path.join(sb.chk, "Level_0")) if f.startswith("state_D"))[-1]
        os.remove(os.path.join(sb.chk, "Level_0", victim))
    else:
        lvdir = os.path.join(sb.plt, f"Level_{sb.m.nlevels - 1}")
        victim = sorted(f for f in os.listdir(lvdir) if f.startswith("Cell_D"))[-1]
        os.remove(os.path.join(lvdir, victim))
    outarg, out_abs = (None, None) if tool == "pestle" else explicit_out(tool, sb, None)
    for form in ("api", "cli"):
        if tool == "whip" and form == "api":
            continue
        key = (tool, form, "missing-binary")
        pools.CTL.reset(mode="inproc", seed=2)
        rec.count("invocations"); rec.count("missing_binary_forms")
        exc, new = audit_invocation(rec, sb, work, f"{tool} via {form} with binary file {victim} missing", key,
                                    lambda: invoke(tool, form, sb, "abs", outarg), out_abs, tool == "pestle", True)
        if exc is None:
            rec.violation(f"{tool} via {form}: returned normally although binary file {victim} is missing", key=key + ("noerr",),
                          witness={"wrote": [os.path.relpath(p, sb.root) for p in new][:5]})
        clean_outputs(sb, new)


def run_truncated(case, work, rec):
    """an input binary file is damaged so that it cannot be read completely - its last FAB cut short, the
    file cut exactly at the start of one of its FABs, a FAB header line in the middle overwritten, the file
    emptied: the tool must not return normally with output that silently lacks data"""
    tool = case["tool"]
    damage = case.get("damage", "tail24")
    sb = Sandbox(work, case["seed"])
    make_refY(sb)
    rec.seen("tools", tool)
    if tool == "chk2plt":
        root, prefix = sb.chk, "state_D"
    else:
        root, prefix = (sb.plt4 if tool == "combine_byfile" else sb.plt2 if tool == "combine" else sb.plt), "Cell_D"
    # what the tool writes from the intact input (a damage the tool does not depend on - it may never look
    # at the overwritten bytes - is no failure: then the output is simply the same)
    ref_digest = None
    if damage != "tail24":
        o_ref, o_ref_abs = explicit_out(tool, sb, None)
        pools.CTL.reset(mode="inproc", seed=2)
        try:
            invoke(tool, "api", sb, "abs", o_ref)
            ref_digest = refmodel.tree_digest(o_ref_abs) if os.path.exists(o_ref_abs) else None
        except Exception:
            ref_digest = None
        shutil.rmtree(o_ref_abs, ignore_errors=True)
    # the binary file holding most FABs (cutting at a FAB boundary needs several)
    best = None
    for lvd in sorted(x for x in os.listdir(root) if x.startswith("Level_")):
        for f in sorted(os.listdir(os.path.join(root, lvd))):
            if f.startswith(prefix):
                walk, _ = refparse.file_walk(os.path.join(root, lvd, f)) if prefix == "Cell_D" else ([], 0)
                if best is None or len(walk) > len(best[1]):
                    best = (os.path.join(root, lvd, f), walk)
    if damage.startswith("cellh_cut"):
        lvd = sorted(x for x in os.listdir(root) if x.startswith("Level_"))[-1]
        vp = os.path.join(root, lvd, "Cell_H")
        with open(vp) as f:
            L = f.read().split("\n")
        # the two tables start at the lines "<nboxes>,<nfields>"; rows end with a comma
        starts = [i for i, l in enumerate(L) if re.match(r"^\d+,\d+$", l)]
        if len(starts) != 2:
            rec.skip("level header without min/max tables"); return
        nrows = int(L[starts[0]].split(",")[0])
        if damage.endswith("max"):
            keep = L[:starts[1] + 1 + max(0, nrows - 1)]          # the last row of maxima is gone (and what follows)
        else:
            keep = L[:starts[0] + 1 + max(0, nrows - 1)]          # cut inside the minima
        with open(vp, "w") as f:
            f.write("\n".join(keep) + "\n")
        victim = os.path.join(lvd, "Cell_H")
        what = f"{victim} cut short inside its table of per-box {'maxima' if damage.endswith('max') else 'minima'} ({nrows} boxes)"
    elif damage == "tail24" or prefix != "Cell_D":
        d = os.path.join(root, "Level_0")
        victim = sorted(f for f in os.listdir(d) if f.startswith(prefix))[-1]
        vp = os.path.join(d, victim)
        with open(vp, "r+b") as f:
            f.truncate(os.path.getsize(vp) - 24)
        what = f"the last FAB of {victim} truncated by 24 bytes"
    else:
        vp, walk = best
        victim = os.path.relpath(vp, root)
        if damage.startswith("cut_at_box"):
            k = int(damage.split(":")[1])
            if len(walk) <= k:
                rec.skip("no binary file with enough FABs"); return
            with open(vp, "r+b") as f:
                f.truncate(walk[k][0])
            what = f"{victim} cut exactly at the start of its FAB number {k + 1} of {len(walk)}"
        elif damage == "garbage_header":
            if len(walk) < 3:
                rec.skip("no binary file with enough FABs"); return
            with open(vp, "r+b") as f:
                f.seek(walk[len(walk) // 2][0]); f.write(b"XYZ ")
            what = f"the header of FAB number {len(walk) // 2 + 1} of {len(walk)} in {victim} overwritten"
        else:
            with open(vp, "r+b") as f:
                f.truncate(0)
            what = f"{victim} emptied"
    rec.seen("input_damage_forms", damage)
    outarg, out_abs = (None, None) if tool == "pestle" else explicit_out(tool, sb, None)
    key = (tool, "unreadable-input", damage)
    pools.CTL.reset(mode="inproc", seed=2)
    rec.count("invocations"); rec.count("truncated_input_forms")
    form = "cli" if tool == "whip" else "api"
    exc, new = audit_invocation(rec, sb, work, f"{tool} with {what}", key,
                                lambda: invoke(tool, form, sb, "abs", outarg), out_abs, tool == "pestle", True)
    if exc is None and ref_digest is not None and out_abs and os.path.exists(out_abs) \
            and refmodel.tree_digest(out_abs) == ref_digest:
        rec.count("damage_not_needed_by_the_tool")       # same output as from the intact input
    elif exc is None:
        rec.violation(f"{tool}: returned normally although input file {what} "
                      f"(a read failure was swallowed)", key=key + ("noerr",), mech="unreadable-input:" + tool + ":" + damage.split(":")[0],
                      witness={"wrote": [os.path.relpath(p, sb.root) for p in new][:5]})
    clean_outputs(sb, new)


def _sub_fault(spec, timeout=600):
    env = dict(os.environ)
    env["PYTHONPATH"] = common.VERIF
    p = subprocess.run([common.PY, "-m", "vlib.realfault", json.dumps(spec)], capture_output=True, text=True,
                       timeout=timeout, cwd=common.VERIF, env=env)
    for line in p.stdout.split("\n"):
        if line.startswith("RESULT "):
            return json.loads(line[7:])
    return {"ok": False, "error": f"no result (exit {p.returncode}): {p.stderr[-300:]}"}


def run_realpool_faults(case, work, rec):
    tool = case["tool"]
    rec.seen("tools", tool)
    base = {"tool": tool, "seed": case["seed"], "workers": 2}
    ref = _sub_fault(dict(base, work=os.path.join(work, "ref"), fault=None))
    if not ref.get("ok") or ref.get("raised"):
        rec.undecided(f"fault-free real-pool run of {tool} failed: {ref.get('error') or ref.get('raised')}")
        return
    if ref.get("pool_tasks", 0) == 0 and tool != "whip":
        rec.undecided(f"real pool not reached by {tool}")
    rng = random.Random(case["seed"])
    files = ref["files"]
    workers_files = [f for f in files if "Cell_D" in f or f.endswith(".npy")]
    parent_files = [f for f in files if f not in workers_files]
    targets = rng.sample(workers_files, min(len(workers_files), case["max_targets"])) + \
        rng.sample(parent_files, min(len(parent_files), max(1, case["max_targets"] // 3)))
    k = 0
    for f in targets:
        for kind, nth in (("open", 1), ("write", 1), ("write", 2)):
            k += 1
            spec = dict(base, work=os.path.join(work, f"f{k}"), fault={"substr": os.path.basename(f) if "Level" not in f else os.sep.join(f.split(os.sep)[-2:]),
                                                                     "kind": kind, "nth": nth})
            r = _sub_fault(spec)
            key = (tool, "realpool-fault", f, kind, nth)
            descr = f"{tool} under a real pool (2 workers): {kind} #{nth} on {f} fails"
            shutil.rmtree(spec["work"], ignore_errors=True)
            if not r.get("ok"):
                rec.undecided(f"real-pool fault run crashed: {r.get('error')}")
                continue
            rec.count("realpool_faults_run")
            if r["raised"]:
                rec.count("realpool_faults_surfaced")
                rec.ok(key, True)
            elif r["digest"] == ref["digest"]:
                rec.count("realpool_faults_not_met_or_absorbed")
                rec.ok(key, False)
            else:
                rec.violation(f"I/O failure inside a pool worker not reported ({descr}): the tool returned normally with "
                              f"output that differs from the fault-free output", key=key, witness={"fault": spec["fault"]})
    shutil.rmtree(os.path.join(work, "ref"), ignore_errors=True)


def run_strace(case, work, rec):
    """console form in a real subprocess under strace: no successful write-class syscall under S/in"""
    tool = case["tool"]
    sb = Sandbox(work, case["seed"])
    make_refY(sb)
    rec.seen("tools", tool)
    style = "rel_slash" if tool in ("chef", "marinate", "mandoline_array") else "abs_slash" if tool == "chk2plt" else "rel_parent"
    inp = sb.chk if tool == "chk2plt" else sb.plt
    arg, cwd = sb.styled(inp, style)
    arg2, _ = sb.styled(sb.plt2, style)
    outp = os.path.join(sb.out, "o_" + tool)
    argv = {"colander": ["amr_kitchen.colander.cli", "colander", arg, "-v", "f0", "-o", outp],
            "chef": ["amr_kitchen.chef.cli", "chef", "--recipe", sb.recipe, arg],
            "marinate": ["amr_kitchen.marinate", "marinate", arg],
            "chk2plt": ["amr_kitchen.chk2plt.cli", "chk2plt", "-c", arg, "-p", sb.refY],
            "mandoline_array": ["amr_kitchen.mandoline.cli", "mandoline", "-n", "2", "-v", "f1", "-f", "array", arg],
            "combine": ["amr_kitchen.combine.cli", "combine", "-p1", arg, "-p2", arg2, "-v1", "f0", "-v2", "g1"],
            "whip": ["amr_kitchen.whip.cli", "whip", "-v", "f1", "-y", "-o", outp + ".npy", arg]}[tool]
    code = (f"import sys; sys.path.insert(0, {common.REPO!r}); import {argv[0]} as m; sys.argv = {argv[1:]!r}; m.main()")
    log = os.path.join(work, "strace.log")
    env = dict(os.environ); env["MPLBACKEND"] = "Agg"
    p = fsaudit.strace_run([common.PY, "-c", code], cwd, log, env=env)
    ws = fsaudit.strace_writes(log, cwd)
    rec.count("invocations"); rec.count("strace_write_syscalls", len(ws))
    bad = [(n, os.path.relpath(ap, sb.root)) for n, ap in ws if any(fsaudit.under(ap, i) for i in sb.inputs)]
    key = (tool, "strace", style)
    if bad:
        rec.violation(f"{tool} console form ({style}): write-class syscall inside an input: {bad[0]}", key=key,
                      witness={"syscalls": bad[:6], "exit": p.returncode})
    elif len(ws) == 0 and p.returncode == 0:
        rec.undecided("strace saw no write at all")
    else:
        rec.ok(key, True)


def run_case(case, work, rec):
    {"forms": run_forms, "faults": run_faults, "missing": run_missing, "strace": run_strace,
     "truncated": run_truncated, "realpool_faults": run_realpool_faults}[case["kind"]](case, work, rec)
