"""C20 — whatever taste accepts, the reader can read completely and consistently.
Fault enumeration over the C04 corruption sites plus byte-level edits validation may tolerate
(offsets moved into their own FAB header, number formatting, whitespace/CRLF, FAB prefix
edits, swapped entries, payload bit flips). For every mutant default validation reports good,
every box of every validated level is read through the indexing interface and compared with
the payload that follows the FAB header naming that index range in the named file."""
import os, re, random
import numpy as np
from .. import common, gen, refparse, workload, pools, mutate, strict

ID = "C20"
LEVEL = "fault_enumeration"
RULE = ("cases = generated plotfiles x (every C04 single site + every site of the tolerant "
        "byte-level operators + seeded pairs); for each mutant default validation (nofail) is "
        "run; if it reports good every box of every validated level is read as pck[:][lv][b] "
        "and pck[last][lv][b] and must have the level-header shape x all fields and the bytes "
        "of the FAB whose header names that index range in the file the level header names. "
        "one evaluation = one mutant. distinct = hash(model, mutations); non-trivial = an "
        "accepted mutant that differs from the original in a byte the reader consumes")
ASSUMPTIONS = ["FAB located by scanning the named file for the box descriptor text; not unique "
               "=> inconclusive", "pool shim M1 in-process"]
# the share of cases also run under python -O (1 = all): the anchor code validates with assert statements
OPT_SUBSET = {"quick": 1, "thorough": 2}
REQUIRED_OBS = {"accepted_and_read": 300, "rejected": 500, "set:tolerant_ops_accepted": 4}
CHAIN = {"quick": 2, "thorough": 10}
TIMEOUT = {"quick": 400, "thorough": 2400}


def cases(tier, seed):
    n = 12 if tier == "quick" else 160
    cs = workload.reader_population(n, seed + 2000, payloads=("random", "special"), max_levels=3, max_fields=3)
    out = []
    K = 4
    for i, c in enumerate(cs):
        c["sel_seed"] = seed * 19 + i
        c["gen"]["base_blocks"] = (1, 2) if c["gen"]["bf"] >= 4 else (2, 3)
        if c["gen"].get("nlevels", 1) >= 2 and not c["gen"].get("file_id_base"):      # as AMReX numbers its files
            c["gen"]["file_id_base"] = "dense"
        c["pairs"] = (40 if tier == "quick" else 80) // K
        for k in range(K):
            d = dict(c); d["chunk"] = [k, K]
            out.append(d)
    # scale: 80 fields per box (lists of fields far apart inside a FAB)
    for k in range(2):
        out.append({"gen": dict(seed=seed * 41 + 2020, ndims=3, nlevels=2, nfields=80, bf=2, base_blocks=(2, 2), payload="random"),
                    "fmt": {}, "sel_seed": seed * 101 + 2020, "pairs": 4, "chunk": [k, 8]})
    if tier == "thorough":       # real AMReX output: a population the generator does not produce
        for a in ("plt1_Y", "plt2_F"):
            for k in range(8):
                out.append({"asset": a, "sel_seed": seed * 19 + k, "pairs": 6, "chunk": [k, 8], "sample": 80})
    return out


def setup():
    pools.install()


NEXTFAB = re.compile(rb"FAB \(\(8, \(64 11 52 0 1 12 0 1023\)\),\(8, \(8 7 6 5 4 3 2 1\)\)\)\(\([-\d,]+\) \([-\d,]+\) \([\d,]+\)\) \d+\n")


def locate(fpath, lo, hi):
    """payload (bytes, ncomp) of the unique FAB in fpath whose header names [lo,hi]"""
    with open(fpath, "rb") as f:
        raw = f.read()
    pat = (rb"\(\(" + ",".join(map(str, lo)).encode() + rb"\)\s*\(" + ",".join(map(str, hi)).encode()
           + rb"\)\s*\([\d,]+\)\)\s+(\d+)[ \t\r]*\n")
    ms = list(re.finditer(pat, raw))
    if len(ms) != 1:
        return None
    mm = ms[0]
    nc = int(mm.group(1))
    n = int(np.prod([b - a + 1 for a, b in zip(lo, hi)])) * nc * 8
    pay = raw[mm.end():mm.end() + n]
    if len(pay) != n:
        return None
    # the next FAB header of the file must not begin inside these n bytes (a FAB that lost bytes: what
    # would be read as its last values is the text of the following header)
    nxt = NEXTFAB.search(raw, mm.end())
    if nxt is not None and nxt.start() < mm.end() + n:
        return pay, nc, True
    return pay, nc, False


def run_case(case, work, rec):
    from amr_kitchen import PlotfileCooker
    from amr_kitchen.taste import Taster
    k, K = case["chunk"]
    rng = random.Random(case["sel_seed"] * 101 + k)
    if "asset" in case:
        import shutil
        path = os.path.join(work, case["asset"])
        shutil.copytree(os.path.join(common.REPO, "test_assets", case["asset"]), path)
        digest = case["asset"]
        inf = mutate.info(path)
        finest = len(inf["levels"]) - 1
        nf = len(inf["header"]["names"])
        ndims = inf["ndims"]
    else:
        m, path = workload.build(case, work)
        digest = common.sha(case["gen"])
        rec.sample({"plotfile": gen.describe(m)})
        inf = mutate.info(path)
        finest = m.nlevels - 1
        nf = m.nfields
        ndims = m.ndims
    tol = mutate.sites_c20(inf)
    hard = mutate.sites_c04(inf)
    sites = [("tol", s) for s in tol] + [("c04", s) for s in hard]
    if "asset" in case:
        sites = random.Random(11).sample(sites, len(sites))[k::K][:case["sample"]]
        k, K = 0, 1
    dst = os.path.join(work, "mut")
    acc = dst       # the path validation and reader are given
    if case.get("reach"):
        # the damaged copies too are reached through `<symlinked directory>/../mut` (nothing sits where that
        # path collapses lexically): validation and reader must follow the same path
        real_parent = os.path.join(work, "arch2", "run")
        os.makedirs(os.path.join(real_parent, "out"), exist_ok=True)
        os.makedirs(os.path.join(work, "runs2"), exist_ok=True)
        if not os.path.islink(os.path.join(work, "runs2", "latest")):
            os.symlink(os.path.join("..", "arch2", "run", "out"), os.path.join(work, "runs2", "latest"))
        dst = os.path.join(real_parent, "mut")
        acc = os.path.join(work, "runs2", "latest", "..", "mut")
        rec.count("reached_through_link_dotdot")

    def one(muts, kinds):
        if not mutate.mutant(path, dst, inf, muts):
            rec.skip("site not applicable"); return
        limit = None if (finest == 0 or rng.random() < 0.7) else rng.randrange(finest + 1)
        pools.CTL.reset(mode="inproc", seed=5)
        key = (digest, str(muts), limit)
        descr = f"{muts} limit_level={limit}"
        try:
            good = bool(Taster(acc, limit_level=limit, nofail=True, verbose=0))
        except Exception as e:
            rec.count("rejected"); rec.count("taste_raised_in_nofail")
            rec.ok(key, False)     # not this property's concern (C04's)
            return
        if not good:
            rec.count("rejected")
            rec.ok(key, False)
            return
        # accepted: the reader must agree
        try:
            H = refparse.parse_header(dst)
        except Exception:
            H = None
        L = finest if limit is None else limit
        try:
            pck = PlotfileCooker(acc, limit_level=limit)
        except Exception as e:
            rec.violation(f"validation accepted but opening raised {type(e).__name__}: {descr}", key=key,
                          witness={"mutations": muts, "exc": repr(e)[:300]})
            return
        consumed = False
        exps = {}       # (level, box) -> the located FAB as an array of all fields (None when the counts differ)
        nbl = {}        # level -> number of boxes its (accepted) level header lists
        for lv in range(L + 1):
            ldir = inf["levels"][lv]["dir"].replace(path, dst)
            try:
                idx, fod = strict.lenient_cell_h(os.path.join(ldir, "Cell_H"), ndims)
            except Exception:
                rec.undecided("accepted level header outside the lenient grammar")
                return
            nbl[lv] = len(idx)
            for bi, ((lo, hi), (fn, off)) in enumerate(zip(idx, fod)):
                # (1) every box must be readable without error, whatever the file looks like
                reads = {}
                for fd, fsel in (("[:]", slice(None)), (f"[{nf - 1}]", nf - 1)):
                    try:
                        reads[fd] = pck[fsel][lv][bi]
                    except Exception as e:
                        rec.violation(f"validation accepted but reading raised {type(e).__name__}: {descr}",
                                      key=key, witness={"mutations": muts, "level": lv, "box": bi,
                                                        "selector": fd, "exc": repr(e)[:300]})
                        return
                # (2) and hold the FAB that names its index range
                loc = locate(os.path.join(ldir, fn), lo, hi)
                if loc is None:
                    rec.undecided("FAB not uniquely locatable")
                    return
                pay, nc, short = loc
                if short:
                    rec.violation(f"validation accepted a binary file in which a FAB is shorter than its header "
                                  f"declares (the next FAB header begins inside its data): {descr}", key=key,
                                  witness={"mutations": muts, "level": lv, "box": bi, "file": fn})
                    return
                shape = [b - a + 1 for a, b in zip(lo, hi)]
                exps[(lv, bi)] = np.frombuffer(pay, "<f8").reshape(shape + [nc], order="F") if nc == nf else None
                for fd, fsel in (("[:]", slice(None)), (f"[{nf - 1}]", nf - 1)):
                    got = reads[fd]
                    if nc != nf:
                        exp = None
                    else:
                        arr = np.frombuffer(pay, "<f8").reshape(shape + [nc], order="F")
                        exp = arr if fd == "[:]" else arr[..., nf - 1]
                    if exp is None or not isinstance(got, np.ndarray) or not refparse.biteq(got, exp):
                        rec.violation(f"validation accepted but the box read differs from the FAB "
                                      f"that names its index range: {descr}", key=key,
                                      witness={"mutations": muts, "level": lv, "box": bi, "selector": fd,
                                               "got_shape": str(getattr(got, "shape", None)),
                                               "declared": shape + [nf], "fab_ncomp": nc})
                        return
        # (3) the same boxes through a list selection: in the order requested, repeats included
        for lv in range(L + 1):
            have = sorted(b for (l, b) in exps if l == lv)
            if len(have) < 2:
                continue
            want = rng.sample(have, min(len(have), 4))
            want = want + [want[0]]
            if want == sorted(want):
                want.reverse()
            try:
                got = pck[nf - 1][lv][list(want)]
            except Exception as e:
                rec.violation(f"validation accepted but reading raised {type(e).__name__}: {descr}", key=key,
                              witness={"mutations": muts, "level": lv, "boxes": want, "exc": repr(e)[:300]})
                return
            rec.count("list_selections_read")
            ok = isinstance(got, (list, tuple)) and len(got) == len(want) and all(
                isinstance(g, np.ndarray) and exps[(lv, b)] is not None and refparse.biteq(g, exps[(lv, b)][..., nf - 1])
                for g, b in zip(got, want))
            if not ok:
                rec.violation(f"validation accepted but the boxes read through a list selection are not the FABs "
                              f"that name their index ranges, in the order requested: {descr}", key=key,
                              witness={"mutations": muts, "level": lv, "boxes": want,
                                       "returned": len(got) if isinstance(got, (list, tuple)) else type(got).__name__})
                return
        # (3b) iterating a validated level yields every box of it exactly once (the per-file readers walk each binary
        # file from its first FAB header on - another code path than the reads by box above)
        for lv in range(L + 1):
            have = sorted(b for (l, b) in exps if l == lv)
            if not have or any(exps[(lv, b)] is None for b in have) or len(have) != nbl.get(lv):
                continue
            pools.CTL.reset(mode="inproc", seed=rng.randrange(10 ** 6))
            try:
                got = []
                for g in pck[nf - 1][lv]:
                    got.append(g)
                    if len(got) > len(have) + 3:
                        break
            except Exception as e:
                rec.violation(f"validation accepted but iterating level {lv} raised {type(e).__name__}: {descr}", key=key,
                              witness={"mutations": muts, "level": lv, "exc": repr(e)[:300]})
                return
            rec.count("levels_iterated_after_validation")
            a = sorted((np.asarray(g).shape, np.ascontiguousarray(g).tobytes()) for g in got)
            e_ = sorted((exps[(lv, b)][..., nf - 1].shape, np.ascontiguousarray(exps[(lv, b)][..., nf - 1]).tobytes()) for b in have)
            if a != e_:
                rec.violation(f"validation accepted but iterating level {lv} does not yield every box exactly once "
                              f"({len(got)} yielded, the level has {len(have)}): {descr}", key=key,
                              witness={"mutations": muts, "level": lv, "yielded": len(got), "boxes": len(have)})
                return
        # (4) under a level limit the finest validated level is also level -1 of the reader opened with that limit
        if limit is not None and (L, 0) in exps and exps[(L, 0)] is not None:
            try:
                got = pck[nf - 1][-1][0]
                ok = isinstance(got, np.ndarray) and refparse.biteq(got, exps[(L, 0)][..., nf - 1])
            except Exception as e:
                got, ok = None, False
            rec.count("negative_level_reads_under_a_limit")
            if not ok:
                rec.violation(f"validation accepted but level -1 of the reader opened with limit_level={limit} is not the finest "
                              f"validated level (box 0 read {'raised' if got is None else 'differs'}): {descr}", key=key + ("neg",),
                              witness={"mutations": muts, "limit_level": limit})
                return
        # (5) lists of fields spanning the whole FAB (first, middle, last; with many fields: far apart)
        if nf >= 3:
            comps = [0, nf // 2, nf - 1]
            for (lv, bi), e in list(exps.items())[:3]:
                if e is None:
                    continue
                try:
                    got = pck[comps][lv][bi]
                    ok = isinstance(got, np.ndarray) and refparse.biteq(got, e[..., comps])
                except Exception:
                    got, ok = None, False
                rec.count("field_list_reads")
                if not ok:
                    rec.violation(f"validation accepted but the field list {comps} of a box read {'raised' if got is None else 'differs from the FAB that names its index range'}: {descr}",
                                  key=key + ("flist",), witness={"mutations": muts, "level": lv, "box": bi, "fields": comps})
                    return
            # a non-decreasing list that repeats a field and skips as many as it repeats (as long as the span it
            # covers): refusing it is fine, other fields' values are not
            for comps in ([0, 0, 2], [nf - 3, nf - 1, nf - 1]):
                for (lv, bi), e in list(exps.items())[:2]:
                    if e is None:
                        continue
                    try:
                        got = pck[comps][lv][bi]
                    except Exception:
                        rec.skip("a selection that names a field twice was refused")
                        continue
                    rec.count("field_list_reads_with_a_repeated_field")
                    if not (isinstance(got, np.ndarray) and refparse.biteq(got, e[..., comps])):
                        rec.violation(f"validation accepted but the field list {comps} of a box read differs from the FAB that names its index range: {descr}",
                                      key=key + ("frep",), witness={"mutations": muts, "level": lv, "box": bi, "fields": comps})
                        return
        rec.count("accepted_and_read")
        for kd, mu in zip(kinds, muts):
            if kd == "tol":
                rec.seen("tolerant_ops_accepted", mu["op"] + ":" + str(mu.get("how", mu.get("k", ""))))
            else:
                rec.seen("c04_ops_accepted", mu["op"] + ":" + str(mu.get("how", mu.get("what", ""))))
        nontriv = any(mu["op"] in ("offset_shift", "fabhdr_text", "fod_text", "idx_text", "swap_entries",
                                   "bitflip", "cellh_text") for mu in muts)
        rec.ok(key, nontriv)

    for kd, mu in sites[k::K]:
        one([mu], [kd])
    for _ in range(case["pairs"]):
        (ka, a), (kb, b) = rng.sample(sites, 2)
        if a.get("lv") == b.get("lv") and (a.get("box") == b.get("box") or
                                           {a["op"], b["op"]} & {"idxline_delete", "fod_delete", "box_delete_consistent",
                                                                 "insert", "remove", "fabhdr", "fabhdr_text", "truncate",
                                                                 "extend", "delete_file", "file_to_dir", "cellh_text", "swap_entries"}):
            continue
        one([a, b], [ka, kb])

