"""C03 — taste accepts every well-formed plotfile under every option combination.
Every generated plotfile is validated under all 16 option combinations x every level limit x
{fail, nofail}; the verdict and which validation stages actually ran are recorded. Negative
controls: corruptions strictly above the level limit must not change the verdict."""
import os, random, contextlib, itertools
import numpy as np
from .. import common, gen, refparse, workload, pools, mutate, strict, endurance

ID = "C03"
LEVEL = "exploration"
RULE = ("cases = generated well-formed plotfiles (C01 population incl. scattered/non-monotone "
        "layouts, special payloads, format variants; real assets in thorough) x 16 option "
        "combinations x level limits x {fail, nofail}; one evaluation = one Taster construction "
        "that must not raise and must be truthy. distinct = hash(model, options, limit, mode); "
        "non-trivial = plotfile with >=2 files at some level or non-monotone in-file order, and "
        "an option combination different from the default")
ASSUMPTIONS = ["well-formed = what the generator writes (NaN-ignoring min/max rows; no all-NaN "
               "box component)", "pool shim M1 in-process with shuffled schedules"]
REQUIRED_OBS = {"endurance_calls": 100, "validations": 500, "path_previously_reported_bad": 4, "controls_above_limit": 5, "cli_validations": 100}
# (the stage:* counters - which validation stages actually ran - are reported in the evidence but not
#  required: they hang on internal method names)
TIMEOUT = {"quick": 300, "thorough": 1500}


def cases(tier, seed):
    n = 32 if tier == "quick" else 600
    cs = workload.reader_population(n, seed + 300, max_levels=3)
    for i, c in enumerate(cs):
        c["sel_seed"] = seed * 13 + i
        if i % 8 == 4:
            # domains that straddle the origin with cell sizes that are no binary fractions: box faces at the
            # coordinate 0, which origin + index * dx reproduces only up to rounding
            nd = c["gen"]["ndims"]
            c["gen"].update(origin=[-1.2, -2.4, -0.8][:nd], aniso=[0.1, 0.3, 0.1][:nd], bf=4, base_blocks=(4, 6),
                            nlevels=min(c["gen"]["nlevels"], 2))
            c["gen"].pop("length_scale", None)
            c["gen"].pop("maxsz", None)
        if i % 8 in (1, 5) and "names" not in c["gen"]:
            # a name written twice next to a field that is literally called like the key a reader would make up for
            # the repetition (`Y(OH)`, `Y(OH)_2`, `Y(OH)`); every other time plain repetitions
            c["gen"]["names"] = (["density", "Y(OH)", "Y(OH)_2", "Y(OH)", "Y(OH)_2"] if i % 8 == 1 else
                                 ["rho", "temp", "rho", "rho"])[:max(4, min(c["gen"].get("nfields", 4), 5))]
            c["gen"].pop("nfields", None)
        if i % 4 == 2 and c["gen"].get("payload") == "random":
            # fields that are exactly zero in whole boxes (an absent species, a fluid at rest): extrema of 0.0
            c["zero_fine"] = True
            c["gen"]["nlevels"] = max(2, c["gen"]["nlevels"])
    if tier == "thorough":
        for a in ("example_plt_2d", "example_plt_3d", "plt1_Y", "plt2_F", "plt_eb_3d"):
            cs.append({"asset": a, "sel_seed": seed})
    # M10: the same operation repeated in one process under a low open-file limit (vlib/endurance.py)
    return list(cs) + [endurance.case("taste", tier, seed)]


STAGES = ["taste_plotfile_structure", "taste_box_coordinates", "taste_binary_headers",
          "taste_binary_shape", "taste_binary_data"]
_ran = {}


def setup():
    pools.install()
    T = common.repo_module("amr_kitchen.taste.taste")
    for name in STAGES:
        orig = getattr(T.Taster, name, None)
        if orig is None:
            continue          # renamed by a refactor: the stage counters then report 0 => inconclusive, not an alarm

        def mk(orig, name):
            def w(self, *a, **k):
                _ran[name] = _ran.get(name, 0) + 1
                return orig(self, *a, **k)
            return w
        setattr(T.Taster, name, mk(orig, name))


@contextlib.contextmanager
def strict_state():
    """what an embedding program may have configured: floating-point errors raise, warnings are errors"""
    import warnings
    with np.errstate(all="raise"), warnings.catch_warnings():
        warnings.simplefilter("error")
        yield


def run_case(case, work, rec):
    if case.get("kind") == "endurance":
        return endurance.run_case(case, work, rec)
    from amr_kitchen.taste import Taster
    rng = random.Random(case["sel_seed"])
    if "asset" in case:
        path = os.path.join(common.REPO, "test_assets", case["asset"])
        H = refparse.parse_header(path)
        finest = H["finest"]
        digest = case["asset"]
        inter = True
        m = None
    else:
        m, path = workload.build(case, work)
        if case["gen"]["seed"] % 2 == 0:
            # history: a damaged plotfile sat at this very path and was reported bad (fail and nofail
            # mode) before the well-formed one was written there - the verdict must not be remembered
            lv = m.nlevels - 1
            victim = os.path.join(path, m.level_dirs[lv], sorted(set(m.files[lv]))[0])
            with open(victim, "r+b") as f:
                f.truncate(max(0, os.path.getsize(victim) - 9))
            for nofail in (True, False):
                try:
                    bool(Taster(path, nofail=nofail, verbose=0))
                except Exception:
                    pass
            rec.count("path_previously_reported_bad")
            m, path = workload.build(case, work)
        finest = m.nlevels - 1
        digest = common.sha(case["gen"], case["fmt"])
        inter = any(m.nfiles(lv) >= 2 or m.nonmonotone(lv) for lv in range(m.nlevels))
        rec.sample({"plotfile": gen.describe(m), "fmt": case["fmt"]})
        if strict.flags(path, coords=True):
            raise RuntimeError("generator wrote a plotfile the strict validator flags: "
                               + str(strict.flags(path, coords=True)))
    # payloads whose values are all finite (an invalid floating-point operation on NaN / inf is the data's own)
    finite_payload = "asset" not in case and case["gen"].get("payload", "random") in ("random", "nearconst", "positive")
    limits = [None] + list(range(finest + 1))
    if "asset" in case:
        limits = [None, 0]
    for opts in itertools.product([True, False], repeat=4):
        bh, bs, bd, bc = opts
        for limit in limits:
            for nofail in (False, True):
                key = (digest, opts, limit, nofail)
                descr = (f"binary_headers={bh} binary_shape={bs} binary_data={bd} "
                         f"boxes_coordinates={bc} limit_level={limit} nofail={nofail}")
                pools.CTL.reset(mode="inproc", seed=rng.randrange(10 ** 6))
                before = dict(_ran)
                # neither the verbosity nor the embedding program's numpy / warnings configuration is part of the
                # verdict: a quarter of the validations runs with floating-point errors raised and warnings turned
                # into errors (payloads without NaN / inf only: there an invalid operation is the data's own)
                vb = rng.choice((0, 0, None, 1, 2, 3))
                strict_fp = finite_payload and rng.random() < (0.6 if case.get("zero_fine") else 0.25)
                try:
                    with (strict_state() if strict_fp else contextlib.nullcontext()):
                        t = Taster(path, limit_level=limit, binary_headers=bh, binary_shape=bs,
                                   binary_data=bd, boxes_coordinates=bc, nofail=nofail, verbose=vb)
                        good = bool(t)
                    exc = None
                    if strict_fp:
                        rec.count("validations_with_fp_errors_raised_and_warnings_as_errors")
                except Exception as e:
                    good, exc = False, f"{type(e).__name__}: {str(e)[:200]}"
                rec.count("validations")
                for s in STAGES:
                    if _ran.get(s, 0) > before.get(s, 0):
                        rec.count("stage:" + s)
                if exc is not None:
                    rec.violation(f"well-formed plotfile: validation raised {exc.split(':')[0]}: {descr}",
                                  witness={"options": descr, "exception": exc}, key=key)
                elif not good:
                    rec.violation(f"well-formed plotfile reported bad: {descr}",
                                  witness={"options": descr}, key=key)
                else:
                    rec.ok(key, inter and opts != (True, True, False, False))
    # the taste entry point wires the same options (flags -nh -ns -bd -bc -nf -l): no flag set may fail
    cli = common.repo_module("amr_kitchen.taste.cli")
    for opts in itertools.product([True, False], repeat=4):
        bh, bs, bd, bc = opts
        limit = rng.choice(limits)
        nofail = rng.random() < 0.5
        args = ["taste", path, "-v", "0"]
        if not bh:
            args.append("-nh")
        if not bs:
            args.append("-ns")
        if bd:
            args.append("-bd")
        if bc:
            args.append("-bc")
        if nofail:
            args.append("-nf")
        if limit is not None:
            args += ["-l", str(limit)]
        pools.CTL.reset(mode="inproc", seed=rng.randrange(10 ** 6))
        before = dict(_ran)
        key = (digest, "cli", opts, limit, nofail)
        try:
            with common.argv(args):
                cli.main()
            exc = None
        except (Exception, SystemExit) as e:
            exc = f"{type(e).__name__}: {str(e)[:200]}"
        rec.count("cli_validations")
        # the flags must reach the stages they name (a swapped or inverted flag runs other stages)
        ran = {s_: _ran.get(s_, 0) > before.get(s_, 0) for s_ in STAGES}
        want = {"taste_binary_headers": bh, "taste_binary_shape": bs, "taste_box_coordinates": bc}
        wrong = [k for k, v in want.items() if ran[k] != v]
        if exc is not None:
            rec.violation(f"well-formed plotfile: taste entry point raised {exc.split(':')[0]}: {' '.join(args[2:])}",
                          witness={"argv": args[2:], "exception": exc}, key=key)
        else:
            if wrong:
                rec.count("cli_flag_stage_mismatch")     # observation only (which stages run is not the property)
            rec.ok(key, inter)
    # negative controls: damage strictly above the limit is not looked at
    if m is not None and finest >= 1:
        inf = mutate.info(path)
        for lim in range(finest):
            sites = mutate.sites_c04(inf, levels=[l for l in range(lim + 1, finest + 1)])
            for mu in rng.sample(sites, min(4, len(sites))):
                dst = os.path.join(work, "ctl")
                if not mutate.mutant(path, dst, inf, [mu]):
                    continue
                if strict.flags(dst, limit=lim):
                    continue
                pools.CTL.reset(mode="inproc", seed=1)
                try:
                    ok = bool(Taster(dst, limit_level=lim, nofail=True, verbose=0))
                except Exception:
                    ok = False
                rec.count("controls_above_limit")
                if ok:
                    rec.ok((digest, "ctl", lim, str(mu)), True)
                else:
                    rec.violation(f"damage above the level limit changed the verdict: limit={lim} {mu}",
                                  witness={"limit": lim, "mutation": mu})
