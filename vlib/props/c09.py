"""C09 — pestle integrates every point of the domain exactly once.
Monitors: the returned / printed integral is compared with the sum over uncovered cells of the
model; icontract post-condition on compute_box_array (occupancy map exact at its own
resolution); pool-task log (one task per box of levels 0..limit, each executed once)."""
import os, re, random
import numpy as np
from .. import common, gen, workload, pools, contracts, endurance

ID = "C09"
LEVEL = "exploration"
RULE = ("cases = generated 3D plotfiles with properly nested levels on even blocking factors "
        "{2,4,8}, bisection tilings and 'mixed' tensor tilings whose smallest extent does not "
        "divide box origins (4/6, 8/12, 16/24 cells), partial refinement, anisotropic cells, 1-4 "
        "levels, any file layout, covered coarse cells holding NaN/inf in a quarter of the cases x field x volFrac on/off x level limit, through both surfaces "
        "(volume_integral on a limited reader, on a fresh reader with limit_level=, on one reader shared by all calls of the case; the pestle entry point with --limit_level / "
        "--volfrac); one evaluation = one integral compared with the model sum (rtol 1e-10 of "
        "sum|terms|). distinct = hash(model, field, volfrac, limit, surface); non-trivial = >=2 "
        "levels with partial refinement")
ASSUMPTIONS = ["float reassociation only: tolerance 1e-10 * sum of |terms| (one lost or doubled cell "
               "is >= 1e-4 of that)", "pool shim M1 with shuffled schedules",
               "blocking factor even (statement's own restriction)"]
REQUIRED_OBS = {"endurance_calls": 100, "integrals": 100, "shared_reader_calls": 100, "covered_cells_nonfinite": 3, "mixed_tilings": 2, "mixed_fine_level_tilings": 2, "uniform_boxes_offset_patches": 1, "cli_runs": 30,
                "limited": 30, "volfrac": 30}
TIMEOUT = {"quick": 600, "thorough": 3000}


def cases(tier, seed):
    n = 48 if tier == "quick" else 5000
    rng = random.Random(seed + 900)
    cs = []
    for i in range(n):
        g = dict(seed=rng.randrange(10 ** 9), ndims=3, names=["rho", "volFrac", "q"], payload="positive")
        if i % 3 == 0:
            s = rng.choice([[4, 6], [4, 6], [8, 12], [16, 24] if tier == "thorough" else [8, 12]])
            g.update(sizes=s, nlevels=2 + (i // 3) % 2, uneven=True, free_regions=(i % 2 == 0))

            if s[0] >= 8:
                g["nlevels"] = min(g["nlevels"], 2)
            g["base"] = [s[0] + s[1], rng.choice([s[0], s[1], s[0] + s[1]]), rng.choice([s[0], s[1]])]
            rng.shuffle(g["base"])
            if (i // 3) % 3 == 2:
                # uniform box size on a smaller blocking factor: every box has the same shape but the
                # refined patches start at odd multiples of the blocking factor
                g.update(sizes=[s[0]], free_regions=True, region_unit=s[0] // 2)
                g["base"] = [2 * s[0], rng.choice([s[0], 2 * s[0]]), 2 * s[0]]
        else:
            bf = rng.choice([2, 4, 8])
            g.update(bf=bf, nlevels=1 + i % 4, base_blocks=(1, 2) if bf == 8 else (1, 3) if bf == 4 else (2, 4))
            if bf == 8:
                g["nlevels"] = min(g["nlevels"], 2)
            if bf == 4:
                g["nlevels"] = min(g["nlevels"], 3)
        if i % 7 == 3:      # six-digit binary file numbers; five- and six-digit numbers at one level
            g["file_id_base"] = [100000, "mixed"][(i // 7) % 2]
        if i % 5 == 2:      # very far from the origin: anything derived from geo_high - geo_low loses digits
            g["origin"] = [3.0e8, -7.0e8, 1.1e9]
        cs.append({"gen": g, "sel_seed": seed * 61 + i, "poison_covered": i % 4 == 1, "uniform_boxes": i % 4 == 2, "fmt": dict(ref_ratio_extra=rng.choice([0, 0, 1, 3]), trailing_blank=rng.random() < 0.7, close_blank=rng.random() < 0.3, floatfmt=rng.choice(["repr", "17g"]))})
    # scale: 64**3 coarse boxes (4096 cells of the occupancy map each), one of them refined by an interior patch only
    for k in range(2 if tier == "quick" else 6):
        cs.append({"scale": "coarse64", "gen": dict(seed=seed * 7 + 9190 + k, names=["rho", "volFrac", "q"], payload="positive"),
                   "sel_seed": seed * 61 + 9190 + k, "poison_covered": False, "fmt": {}})
    # M10: the same operation repeated in one process under a low open-file limit (vlib/endurance.py)
    return list(workload.add_reach_store(cs)) + [endurance.case("integral", tier, seed)]


def setup():
    pools.install()
    contracts.install(("box_array",))


def expected(m, fidx, vidx, L):
    tot = 0.0
    mag = 0.0
    for lv in range(L + 1):
        dV = float(np.prod(m.dx[lv]))
        for bi in range(len(m.boxes[lv])):
            mask = gen.uncovered_mask(m, lv, bi, L)
            a = m.data[lv][bi][..., fidx]
            if vidx is not None:
                a = a * m.data[lv][bi][..., vidx]
            t = a[mask] * dV
            tot += float(np.sum(t)); mag += float(np.sum(np.abs(t)))
    return tot, mag


def is_mixed(m):
    """smallest box extent does not divide some box edge"""
    ext = min(min(b.shape) for lv in m.boxes for b in lv)
    return any(v % ext for lv in m.boxes for b in lv for v in list(b.lo) + [h + 1 for h in b.hi])


def run_case(case, work, rec):
    if case.get("kind") == "endurance":
        return endurance.run_case(case, work, rec)
    from amr_kitchen import PlotfileCooker
    from amr_kitchen.pestle.pestle import volume_integral
    cli = common.repo_module("amr_kitchen.pestle.cli")
    rng = random.Random(case["sel_seed"])
    m, path = workload.build(case, work)
    digest = common.sha(case["gen"])
    mixed = is_mixed(m)
    if mixed:
        rec.count("mixed_tilings")
    ext = min(min(b.shape) for lv in m.boxes for b in lv)
    if any(v % ext for lv in m.boxes[1:] for b in lv for v in list(b.lo) + [h + 1 for h in b.hi]):
        rec.count("mixed_fine_level_tilings")     # where the occupancy map of a masking level is at stake
    shapes = {b.shape for lv in m.boxes for b in lv}
    if len(shapes) == 1 and any(v % min(next(iter(shapes))) for lv in m.boxes[1:] for b in lv for v in b.lo):
        rec.count("uniform_boxes_offset_patches")
    if case.get("uniform_boxes"):
        rec.count("inputs_with_exactly_uniform_boxes")
    if getattr(m, "poisoned_cells", 0):
        rec.count("covered_cells_nonfinite")       # cells that must count zero times hold NaN / inf
    rec.sample({"plotfile": gen.describe(m), "mixed_box_sizes": mixed, "covered_cells_poisoned": getattr(m, "poisoned_cells", 0)})
    finest = m.nlevels - 1
    partial = m.nlevels >= 2 and any((gen.level_map(m, lv + 1) == lv).any() for lv in range(finest))
    n0 = dict(contracts.COUNTS)
    shared = PlotfileCooker(path, ghost=True)     # one reader asked many times with different limits / fields
    for field in ("rho", "q"):
        for volfrac in (False, True):
            for limit in [None] + list(range(finest + 1)):
                L = finest if limit is None else limit
                exp, mag = expected(m, m.names.index(field), m.names.index("volFrac") if volfrac else None, L)
                tol = 1e-10 * mag
                nboxes = sum(len(m.boxes[lv]) for lv in range(L + 1))
                for surface in ("api", "api_arg", "shared", "cli"):
                    if surface == "api_arg" and limit is None:
                        continue
                    key = (digest, field, volfrac, limit, surface)
                    descr = f"field={field} volfrac={volfrac} limit_level={limit} surface={surface}"
                    pools.CTL.reset(mode="inproc", seed=rng.randrange(10 ** 6))
                    nf0 = len(contracts.FAILS)
                    try:
                        if surface == "api":
                            # the reader's other option (per-box extrema from the level headers) is the caller's business
                            mm = {"maxmins": True} if rng.random() < 0.5 else {}
                            if mm:
                                rec.count("readers_opened_with_maxmins")
                            got = volume_integral(PlotfileCooker(path, limit_level=limit, ghost=True, **mm), field,
                                                  use_volfrac=volfrac)
                        elif surface == "api_arg":
                            got = volume_integral(PlotfileCooker(path, ghost=True), field, limit_level=limit,
                                                  use_volfrac=volfrac)
                        elif surface == "shared":
                            kw = {} if limit is None else {"limit_level": limit}
                            got = volume_integral(shared, field, use_volfrac=volfrac, **kw)
                            rec.count("shared_reader_calls")
                        else:
                            args = ["pestle", "-v", field, path]
                            if limit is not None:
                                args += ["-l", str(limit)]
                            if volfrac:
                                args += ["-vf"]
                            cap = os.path.join(work, "stdout.txt")
                            with common.quiet_fds(cap), common.argv(args):
                                cli.main()
                            txt = open(cap, errors="replace").read()
                            mm = re.search(r"Volume integral of \S+ in plotfile: (\S+)", txt)
                            got = float(mm.group(1)) if mm else None
                            rec.count("cli_runs")
                    except (Exception, SystemExit) as e:
                        rec.violation(f"integration raised {type(e).__name__}: {descr}", key=key,
                                      witness={"config": descr, "exc": repr(e)[:300]})
                        continue
                    rec.count("integrals")
                    if limit is not None and limit < finest:
                        rec.count("limited")
                    if volfrac:
                        rec.count("volfrac")
                    t = tol if surface != "cli" else max(tol, 2e-15)
                    ntasks = sum(c[1] for c in pools.CTL.calls)
                    probs = []
                    if not np.isfinite(exp):
                        # a level limit that exposes poisoned coarse cells: the sum itself is not finite
                        rec.count("nonfinite_expected")
                        if got is None or np.isfinite(got):
                            probs.append(f"integral {got!r} although uncovered cells hold non-finite values (sum {exp!r})")
                    elif got is None or not abs(got - exp) <= t:
                        rel = abs((got or 0) - exp) / mag if mag else float("inf")
                        probs.append(f"integral {got!r} != sum over uncovered cells {exp!r} (relative to sum|terms|: {rel:.3e})")
                    if ntasks == nboxes:
                        rec.count("one_task_per_box")      # observation only: batching boxes would be fine too
                    if probs:     # diagnostic only: localises a wrong integral at its source
                        for f in contracts.FAILS[nf0:nf0 + 2]:
                            probs.append(f"occupancy map wrong at the source: {f['detail']}")
                    elif len(contracts.FAILS) > nf0:
                        rec.count("box_array_contract_failed_but_integral_right")
                    if probs:
                        rec.violation(f"volume integral does not count every point once ({probs[0][:150]}): {descr}",
                                      key=key, witness={"config": descr, "differences": probs[:4], "mixed_box_sizes": mixed})
                    else:
                        rec.ok(key, partial)
    for k, v in contracts.COUNTS.items():
        rec.count("calls:" + k, v - n0.get(k, 0))
    for p in pools.check_log():
        rec.violation("pool log: " + p)
