"""C17 — chk2plt carries the checkpoint's interior state into a valid plotfile.
History + model: every conversion of a synthetic checkpoint is parsed independently and compared
with state[g:-g] (+) gradp (+) I_R of the model (bitwise for unfloored components, Y/sum(Y) at
rtol 1e-12 when flooring); must validate with box coordinates; checkpoint tree hashed before
and after; poison allocator on the np.empty offset/min/max tables."""
import os, random, hashlib
import numpy as np
from .. import common, gen, chkgen, refparse, refmodel, pools, poison, workload, endurance

ID = "C17"
LEVEL = "exploration"
RULE = ("cases = synthetic PeleLMeX checkpoints (1-3 levels, anisotropic and isotropic domains, "
        "1-3 ghost cells, every data subset with its own file distribution and in-file order) x "
        "{gradp, reactions, flooring} x species source {list, reference plotfile with Y(), with "
        "only I_R()} x output {explicit, default}; integer-valued times as a separate class; one "
        "evaluation = one conversion compared with the model. distinct = hash(checkpoint, flags, "
        "species source, output form); non-trivial = >=2 state files whose gradp/I_R distribution "
        "differs, or an anisotropic domain")
ASSUMPTIONS = ["checkpoint layout as in test_assets/example_chk_3d", "pool shim M1 with shuffled schedules",
               "cell sizes are derived as (hi-lo)/N like the tool does (the checkpoint does not store them)"]
REQUIRED_OBS = {"endurance_calls": 100, "conversions": 40, "with_reactions": 10, "with_gradp": 20, "floored": 15,
                "anisotropic": 10, "default_output": 8, "ref_plotfile": 10, "second_checkpoint_same_process": 10, "no_chk_in_name": 10}
TIMEOUT = {"quick": 400, "thorough": 2000}
SPECIES = ["H2", "IC8H18", "RO2", "Y2O3", "CH2(S)"]     # names that start with the letters of the prefixes Y( and I_R(


def cases(tier, seed):
    n = 32 if tier == "quick" else 600
    rng = random.Random(seed + 1700)
    cs = []
    for i in range(n):
        bf = rng.choice([2, 4])
        g = dict(seed=rng.randrange(10 ** 9), nspecies=rng.randint(1, 4), nghost=1 + i % 3,
                 aniso=(i % 3 != 0), nlevels=1 + i % 3, bf=bf, base_blocks=(1, 2) if bf == 4 else (2, 3))
        if i % 6 == 5:
            g["time"] = rng.choice([0.0, 2.0, 100.0])
        if i % 5 == 3:      # far from the origin: coordinate / cell size of 1e5 .. 1e7
            g["origin"] = [rng.choice([1.0e5, -3.0e5, 2.5e6]) for _ in range(3)]
        if i % 4 == 2:      # header flavour with an integer line before the time (also with whole-number times)
            g["header_int"] = [1, 0, 7][(i // 4) % 3]
        if i % 4 == 1:      # box extrema that are negative numbers with three-digit exponents (gradp, reaction rates)
            g["extreme_vals"] = True
        if i % 7 == 4:      # header tail without the coordinate-system lines
            g["no_coord"] = True
        c = {"gen": g, "sel_seed": seed * 79 + i}
        if i % 8 == 6:      # data files kept in a store under other names and linked into the level directories
            c["store"] = ["files", "files+levels"][(i // 8) % 2]
        if i % 8 == 1:      # the checkpoint is reached through `<symlinked directory>/../<name>`
            c["reach"] = True
        cs.append(c)
    # scale: a checkpoint whose level 0 holds a box of a million cells
    for k in range(1 if tier == "quick" else 2):
        cs.append({"gen": dict(seed=seed * 43 + 1717 + k, nspecies=2, nghost=1, aniso=True, scale=True), "sel_seed": seed * 79 + 1717 + k})
    # M10: the same operation repeated in one process under a low open-file limit (vlib/endurance.py)
    return cs + [endurance.case("convert", tier, seed)]


def setup():
    pools.install()
    poison.install(("amr_kitchen.chk2plt.chk2plt", "amr_kitchen.chk2plt.checkpoint_reader"))


def tree_hash(path):
    h = hashlib.sha256()
    for root, dirs, files in os.walk(path):
        dirs.sort()
        h.update(os.path.relpath(root, path).encode())
        for f in sorted(files):
            p = os.path.join(root, f)
            st = os.lstat(p)
            h.update(f.encode() + b"\0" + str(st.st_size).encode() + str(st.st_mtime_ns).encode())
            with open(p, "rb") as fh:
                h.update(fh.read())
    return h.hexdigest()


def taste_ok(path):
    from amr_kitchen.taste import Taster
    try:
        return bool(Taster(path, boxes_coordinates=True, nofail=True, verbose=0))
    except Exception:
        return False


def expect(m, species, gradp, reactions, floor):
    ns = m.nspecies
    names = ["x_velocity", "y_velocity", "z_velocity", "density"] + [f"Y({s})" for s in species] + ["rhoh", "temp", "RhoRT"]
    if gradp:
        names += ["gradpx", "gradpy", "gradpz"]
    if reactions:
        names += [f"I_R({s})" for s in species]
    g = m.nghost
    N = m.grid_sizes[0]
    dx0 = [(m.geo_high[d] - m.geo_low[d]) / N[d] for d in range(3)]
    dx = [[float(np.float64(m.geo_high[d] - m.geo_low[d]) / np.int64(m.grid_sizes[lv][d])) for d in range(3)]
          for lv in range(m.nlevels)]
    levels = []
    rt = {}
    for lv in range(m.nlevels):
        boxes = []
        for bi, b in enumerate(m.boxes[lv]):
            st = m.sub[(lv, "state")][bi][g:-g, g:-g, g:-g, :].copy()
            if floor:
                st[..., 4:4 + ns] = st[..., 4:4 + ns] / np.sum(st[..., 4:4 + ns], axis=-1)[..., None]
            parts = [st]
            if gradp:
                parts.append(m.sub[(lv, "gradp")][bi])
            if reactions:
                parts.append(m.sub[(lv, "I_R")][bi])
            arr = np.concatenate(parts, axis=-1)
            phys = [[m.geo_low[d] + b.lo[d] * dx[lv][d], m.geo_low[d] + (b.hi[d] + 1) * dx[lv][d]] for d in range(3)]
            boxes.append({"lo": list(b.lo), "hi": list(b.hi), "arr": arr, "phys": phys, "mins": None, "maxs": None})
        levels.append(boxes)
    if floor:
        rt = {c: 1e-12 for c in range(4, 4 + ns)}
    e = refmodel.Expect(names, 3, m.time, m.geo_low, m.geo_high, dx, m.grid_sizes, levels)
    return e, rt


def run_case(case, work, rec):
    if case.get("kind") == "endurance":
        return endurance.run_case(case, work, rec)
    if case["gen"].get("scale"):
        rec.count("scale_cases")
        run_one(case, work, rec, case["gen"], "chk00005", 2)
        return
    run_one(case, work, rec, case["gen"], "chk00005", 8)
    # a second, different checkpoint converted in the SAME process (another species count, ghost width
    # and level count): nothing may be carried over from the first conversions
    g2 = dict(case["gen"])
    g2["seed"] = g2["seed"] + 1
    g2["nspecies"] = {1: 3, 2: 4, 3: 1, 4: 2}[case["gen"]["nspecies"]]
    g2["nghost"] = 1 + case["gen"]["nghost"] % 3
    rec.count("second_checkpoint_same_process")
    run_one(case, os.path.join(work, "second"), rec, g2, "chk00042", 3)
    # default output (API and entry point) for a checkpoint directory named without 'chk': beside, never inside
    from amr_kitchen.chk2plt.chk2plt import chk2plt
    cli = common.repo_module("amr_kitchen.chk2plt.cli")
    for form in ("api", "cli"):
        d = os.path.join(work, "named_" + form)
        os.makedirs(d)
        chk = os.path.join(d, "restart00020")
        m = chkgen.gen_chk(path=chk, **dict(case["gen"], nlevels=1))
        ref = gen.gen_model(1, ndims=3, nlevels=1, names=["density"] + [f"Y({s})" for s in SPECIES[:m.nspecies]], bf=4, base_blocks=(1, 1))
        # every other case the reference plotfile sits where the default output lands once it has moved aside from the
        # checkpoint (`restart00020_plt`: what an earlier default conversion of this checkpoint left there)
        refp = os.path.join(d, "restart00020_plt" if (case["sel_seed"] % 2 == 0 and form == "cli") else "pltref")
        gen.write_plotfile(ref, refp)
        h0 = tree_hash(chk)
        hr0 = tree_hash(refp)
        before = set(os.listdir(d))
        pools.CTL.reset(mode="inproc", seed=1)
        poison.set_poison(np.nan)
        key = (common.sha(case["gen"]), "no-chk-name", form)
        try:
            if form == "api":
                chk2plt(chk, species=SPECIES[:m.nspecies])
            else:
                with common.argv(["chk2plt", "-c", chk, "-p", refp]):
                    cli.main()
            exc = None
        except (Exception, SystemExit) as e:
            exc = e
        rec.count("no_chk_in_name")
        new = sorted(set(os.listdir(d)) - before)
        if tree_hash(chk) != h0:
            rec.violation(f"conversion with the default output ({form}) wrote into a checkpoint whose directory name "
                          f"holds no 'chk' (restart00020)", key=key, witness={"new_beside": new, "raised": repr(exc)[:200]})
        elif form == "cli" and tree_hash(refp) != hr0:
            rec.violation(f"conversion with the default output ({form}) wrote into the plotfile given as the source of the "
                          f"species names ({os.path.basename(refp)} beside restart00020)", key=key,
                          witness={"new_beside": new, "raised": repr(exc)[:200]})
        elif exc is None and not new:
            rec.violation(f"conversion with the default output ({form}) of checkpoint 'restart00020' returned normally "
                          f"but no plotfile appeared beside it", key=key)
        elif exc is None and not taste_ok(os.path.join(d, new[0])):
            rec.violation(f"default output {new[0]} of checkpoint 'restart00020' ({form}) is rejected by validation", key=key)
        else:
            rec.ok(key, True)


def run_one(case, work, rec, gparams, chkname, nconf):
    from amr_kitchen.chk2plt.chk2plt import chk2plt
    os.makedirs(work, exist_ok=True)
    rng = random.Random(case["sel_seed"] + len(chkname) + nconf)
    g = dict(gparams)
    chk = os.path.join(work, chkname)
    m = chkgen.gen_chk(path=chk, **g)
    if case.get("store"):
        workload.to_store(chk, level_links="levels" in case["store"])
        rec.count("checkpoint_with_linked_data_files")
    if case.get("reach"):
        chk = workload.reach_link_dotdot(work, chk)
        rec.count("checkpoint_reached_through_link_dotdot")
    digest = common.sha(g)
    species = SPECIES[:m.nspecies]
    integer_time = float(m.time) % 1 == 0
    if g.get("header_int") is not None:
        rec.count("header_with_integer_line")
    if g.get("no_coord"):
        rec.count("header_without_coordinate_system_lines")
    rec.sample({"checkpoint": gen.describe(m), "nghost": m.nghost, "nspecies": m.nspecies, "time": m.time})
    aniso = len(set(m.dx[0])) > 1
    diff_dist = any(m.sublayout[(lv, "state")]["file_of"] != m.sublayout[(lv, s)]["file_of"] and
                    len(set(m.sublayout[(lv, "state")]["file_of"])) >= 2
                    for lv in range(m.nlevels) for s in ("gradp", "I_R"))
    # reference plotfiles providing the species names
    refY = gen.gen_model(1, ndims=3, nlevels=1, names=["density"] + [f"Y({s})" for s in species], bf=4, base_blocks=(1, 1))
    gen.write_plotfile(refY, os.path.join(work, "pltrefY"))
    refI = gen.gen_model(1, ndims=3, nlevels=1, names=["temp"] + [f"I_R({s})" for s in species], bf=4, base_blocks=(1, 1))
    gen.write_plotfile(refI, os.path.join(work, "pltrefI"))
    configs = []
    for gradp in (True, False):
        for reactions in (False, True):
            for floor in (True, False):
                src = rng.choice(["list", "refY", "refI"])
                configs.append((gradp, reactions, floor, src, "explicit"))
    configs.append((True, False, True, "list", "default"))
    configs.append((True, True, False, "refY", "default"))
    rng.shuffle(configs)
    if case.get("reach"):      # "beside the checkpoint" has two readings for such a path: explicit outputs only
        configs = [c for c in configs if c[4] == "explicit"]
    h0 = tree_hash(chk)
    if nconf < 8:
        configs = [c for c in configs if c[2]] + [c for c in configs if not c[2]]     # flooring first
    for ci, (gradp, reactions, floor, src, outform) in enumerate(configs[:nconf]):
        out = workload.out_path(work, f"pltout{ci}", ci, rec) if outform == "explicit" else None
        expected_out = out or os.path.join(work, chkname.replace("chk", "plt"))
        key = (digest, gradp, reactions, floor, src, outform)
        descr = (f"gradp={gradp} species_reactions={reactions} floor_massfracs={floor} species from {src} "
                 f"output={outform} nghost={m.nghost} anisotropic={aniso} time={m.time!r}")
        mech = "chk-integer-time" if integer_time else None
        kw = {}
        if src == "list":
            kw["species"] = list(species)
        else:
            kw["target_plotfile"] = os.path.join(work, "pltrefY" if src == "refY" else "pltrefI")
        outs = []
        err = None
        for pv in (np.nan, 1e30):
            poison.set_poison(pv)
            pools.CTL.reset(mode="inproc" if ci % 3 else "fork", seed=rng.randrange(10 ** 6))
            if os.path.isdir(expected_out):
                import shutil; shutil.rmtree(expected_out)
            try:
                chk2plt(chk, gradp=gradp, species_reactions=reactions, floor_massfracs=floor, pltdir=out, **kw)
                outs.append(refmodel.tree_digest(expected_out) if os.path.isdir(expected_out) else None)
            except Exception as e:
                err = f"{type(e).__name__}: {str(e)[:200]}"
                break
        if err:
            rec.violation(f"conversion raised {err.split(':')[0]}: {descr}", key=key, mech=mech,
                          witness={"config": descr, "exc": err})
            continue
        rec.count("conversions")
        for flag, name in ((reactions, "with_reactions"), (gradp, "with_gradp"), (floor, "floored"), (aniso, "anisotropic"),
                           (outform == "default", "default_output"), (src != "list", "ref_plotfile")):
            if flag:
                rec.count(name)
        probs = []
        if not os.path.isdir(expected_out):
            probs.append(f"no plotfile at {os.path.basename(expected_out)}")
        else:
            exp, rt = expect(m, species, gradp, reactions, floor)
            dxmin = min(min(d) for d in exp.dx)
            # box bounds are recomputed by the tool (origin + index x cell size): equal up to a few ulp of
            # the coordinate, which far from the origin is more than 1e-9 cell
            far = max(max(abs(v) for v in m.geo_low), max(abs(v) for v in m.geo_high))
            probs = refmodel.compare(expected_out, exp, check_minmax=False, rtol_comps=rt,
                                     phys_tol=1e-9 * dxmin + 8 * 2.220446049250313e-16 * far)
            if not probs:
                r = refparse.parse(expected_out)
                for lv, lev in enumerate(r["levels"]):
                    for bi, d in enumerate(lev["data"]):
                        a = d["arr"]
                        emin = refmodel.header_row(np.min(a, axis=(0, 1, 2)))
                        emax = refmodel.header_row(np.max(a, axis=(0, 1, 2)))
                        if lev["mins"] is None or lev["mins"][bi] != emin or lev["maxs"][bi] != emax:
                            probs.append(f"level {lv} box {bi}: min/max rows are not the extrema of the written data")
                            break
                        if floor:
                            ys = a[..., 4:4 + m.nspecies].sum(axis=-1)
                            if not np.allclose(ys, 1.0, rtol=0, atol=1e-12):
                                probs.append(f"level {lv} box {bi}: floored mass fractions do not sum to one")
                                break
            if not probs and outs[0] != outs[1]:
                probs.append("written bytes depend on uninitialised memory (two poison runs differ)")
            if not probs and not taste_ok(expected_out):
                probs.append("validation with box coordinates rejects the converted plotfile")
        if tree_hash(chk) != h0:
            probs.append("the conversion wrote into the checkpoint")
            h0 = tree_hash(chk)
        if probs:
            rec.violation(f"converted plotfile is not the checkpoint's interior state ({probs[0][:150]}): {descr}",
                          key=key, mech=mech if any("time" in p for p in probs[:1]) else None,
                          witness={"config": descr, "differences": probs[:4]})
        else:
            rec.ok(key, diff_dist or aniso)
