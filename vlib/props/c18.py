"""C18 — header-only tools report what the full reader holds.
Monitors: captured stdout of the minuterie / menu entry points is parsed and compared with the
model (time; every header field represented exactly once; min/max rows = '%.3g' of the extrema
of the per-box header tables); a marinated reader is unpickled and compared (metadata, bits)."""
import os, re, sys, random, pickle, subprocess
import numpy as np
from .. import common, gen, refparse, workload, pools, contracts, endurance

ID = "C18"
LEVEL = "exploration"
RULE = ("cases = generated plotfiles (odd/even field counts incl. 1, with/without species, unknown "
        "names that are prefixes/substrings of each other or hold regex metacharacters, 2D/3D, "
        "negative and infinite extrema, negative/zero/huge/infinite/NaN times) x menu option sets {none, -m, "
        "-f, -m -f, -d, -e, --has_var} + minuterie + marinate, several Menu runs per process and "
        "fresh subprocesses; one evaluation = one tool run whose parsed output is compared with "
        "the model. distinct = hash(model, tool, options); non-trivial = odd field count, no "
        "species, or colliding unknown names")
ASSUMPTIONS = ["menu tables are parsed only when no field name holds a blank (they cannot be tokenised otherwise); minuterie and marinate are judged for every name",
               "generator trusted; min/max tables hold no NaN"]
REQUIRED_OBS = {"endurance_calls": 100, "menu_views_judged": 60, "menu_runs": 60, "minmax_tables": 20, "odd_counts": 4, "no_species": 3,
                "colliding_names": 3, "names_with_blanks": 2, "minuterie": 8, "marinate": 5, "subprocess_runs": 1}
TIMEOUT = {"quick": 300, "thorough": 1500}

KNOWN = ["density", "temp", "x_velocity", "y_velocity", "rhoh", "divu", "mag_vort", "HeatRelease",
         "gradpx", "I_R(H2)", "D_H2", "volFrac", "X(O2)"]
SPECIES = ["Y(H2)", "Y(O2)", "Y(N2)", "Y(CH2(S))", "Y(H2O)"]
UNKNOWN = ["foo", "foobar", "barfoo", "my_foo_2", "a+b", "c.d", "x(1)", "x1", "zeta", "Temp", "tempX", "density2"]


def cases(tier, seed):
    n = 32 if tier == "quick" else 4000
    rng = random.Random(seed + 1800)
    cs = []
    for i in range(n):
        nd = 2 if i % 4 == 3 else 3
        k = [1, 2, 3, 4, 5, 7, 8, 11][i % 8]
        with_species = i % 3 != 1
        pool_ = KNOWN + UNKNOWN + (SPECIES if with_species else [])
        must = ["foo", "foobar"] if i % 2 == 0 and k >= 2 else []
        names = list(must)
        while len(names) < k:
            c = rng.choice(pool_)
            if c not in names:
                names.append(c)
        if with_species and k >= 2 and not any(x.startswith("Y(") for x in names):
            names[-1] = rng.choice(SPECIES)
        rng.shuffle(names)
        if i % 8 == 6 and with_species:      # scale: eleven species whose names are 12 .. 44 characters long
            long_ = [f"Y(NC12H26OOHX{j}{'Q' * (0 if i % 16 == 6 else 30)})" for j in range(11)]
            names = [n for n in names if not n.startswith("Y(")][:3] + long_
            rng.shuffle(names)
        if i % 8 == 1 and k >= 2:     # two names that differ only in letter case
            a, b = [("temp", "Temp"), ("HeatRelease", "heatrelease"), ("foo", "FOO"), ("zeta", "Zeta")][(i // 8) % 4]
            names = [n for n in names if n not in (a, b)][:k - 2] + [a, b]
            rng.shuffle(names)
        if i % 8 == 5:      # names holding blanks or UTF-8 text (valid: one name per header line)
            names = gen.odd_names(random.Random(seed * 43 + i), k, blanks=True, nonascii=True)
            if not any(" " in x for x in names):
                names[0] = "heat release"
        bf = rng.choice([2, 4])
        g = dict(seed=rng.randrange(10 ** 9), ndims=nd, nlevels=1 + i % 3, bf=bf, names=names,
                 base_blocks=(1, 2) if bf == 4 else (2, 3), payload=rng.choice(["random", "special", "random", "extreme"]),      # extreme: extrema with three-digit exponents
                 time=[0.0, -2.5, 1e300, 3.25e-7, 7.0, 123456.789, float("inf"), float("-inf"), float("nan"), -0.0][(i * 7 + rng.randrange(2)) % 10])
        # every fourth case: extrema on a decimal tie at the third significant digit (2.665 -> 2.67, -1.145 -> -1.15)
        cs.append({"gen": g, "sel_seed": seed * 73 + i, "subprocess": i < 2, "ties": i % 4 == 2})
    # M10: the same operation repeated in one process under a low open-file limit (vlib/endurance.py)
    return list(workload.add_reach_store(cs)) + [endurance.case("menu", tier, seed)]


def setup():
    pools.install()


def represent(names):
    """expected representation of each header field: database class (anchored patterns as in
    the tool's own table) or the field's own name"""
    M = common.repo_module("amr_kitchen.menu.menu")
    db = {k: v[0] for k, v in M.Menu.field_info.items() if v[1] != "Units unknown"}
    out = []
    for n in names:
        for k, pat in db.items():
            if re.search(pat, n):
                out.append(k); break
        else:
            out.append(n)
    return out


def run_tool(modname, args, work, sub=False):
    """-> (stdout text, exception string or None)"""
    cap = os.path.join(work, "tool_stdout.txt")
    if sub:
        code = (f"import sys; sys.path.insert(0, {common.REPO!r}); import {modname} as m; "
                f"sys.argv = {args!r}; m.main()")
        p = subprocess.run([common.PY, "-c", code], capture_output=True, text=True, timeout=120, cwd=work)
        return p.stdout, (None if p.returncode == 0 else f"exit {p.returncode}: {p.stderr[-300:]}")
    mod = common.repo_module(modname)
    err = None
    with common.quiet_fds(cap), common.argv(args):
        try:
            mod.main()
        except (Exception, SystemExit) as e:
            err = f"{type(e).__name__}: {str(e)[:200]}"
    return open(cap, errors="replace").read(), err


def boxed(text, title):
    """tokens between the two caps following a title line"""
    L = text.split("\n")
    for i, l in enumerate(L):
        if title in l:
            caps = [j for j in range(i + 1, len(L)) if re.match(r"^\+-*\+", L[j])]
            if len(caps) >= 2:
                return L[caps[0] + 1:caps[1]], L[caps[1] + 1:]
    return None, None


def fmt3(x):
    return float("%.3g" % x)


def run_case(case, work, rec):
    if case.get("kind") == "endurance":
        return endurance.run_case(case, work, rec)
    rng = random.Random(case["sel_seed"])
    m, path = workload.build(case, work)
    names = m.names
    digest = common.sha(case["gen"])
    rec.sample({"plotfile": gen.describe(m), "names": names, "time": m.time})
    if case.get("ties"):
        rec.count("extrema_on_decimal_ties")
    reps = represent(names)
    species = sorted(re.sub(r"\)$", "", re.sub(r"^Y\(", "", n)) for n in names if re.search(r"^Y\(.+\)$", n))
    odd = len(names) % 2 == 1
    collide = any(a != b and a in b for a in names for b in names if a in UNKNOWN)
    nt = odd or not species or collide
    if odd:
        rec.count("odd_counts")
    if not species:
        rec.count("no_species")
    if collide:
        rec.count("colliding_names")
    sub = case.get("subprocess", False)
    r = refparse.parse(path, with_data=False)
    blanks = any(" " in n for n in names)     # the printed tables cannot be tokenised: menu is only run, not parsed
    if blanks:
        rec.count("names_with_blanks")

    # ---- what an earlier session left beside the plotfile: the pickle marinate wrote when the directory held OTHER
    # data (the output was regenerated in place / restored with its old timestamps): newer than the Header
    if m.ndims == 3 and case["sel_seed"] % 2 == 0 and not case.get("reach") and not case.get("scale"):
        try:
            other = gen.gen_model(**dict(case["gen"], data_seed=case["gen"]["seed"] + 991))
            sib = os.path.join(work, "earlier", os.path.basename(path))
            os.makedirs(os.path.dirname(sib), exist_ok=True)
            gen.write_plotfile(other, sib, **case.get("fmt", {}))
            pools.CTL.reset(mode="inproc", seed=1)
            run_tool("amr_kitchen.marinate", ["marinate", sib], work, False)
            if os.path.isfile(sib + ".pkl"):
                os.replace(sib + ".pkl", path + ".pkl")
                old = os.path.getmtime(path + ".pkl") - 3600.0
                for root, dirs, files in os.walk(os.path.realpath(path)):
                    for fn in files:
                        os.utime(os.path.join(root, fn), (old, old))
                rec.count("stale_marinade_beside_the_input")
            import shutil
            shutil.rmtree(os.path.join(work, "earlier"), ignore_errors=True)
        except Exception:
            pass

    # ---- minuterie
    out, err = run_tool("amr_kitchen.minuterie", ["minuterie", path], work, sub)
    mm = re.search(r"Plotfile time = (\S+)", out)
    key = (digest, "minuterie")
    rec.count("minuterie")
    if sub:
        rec.count("subprocess_runs")
    if err or not mm:
        rec.violation(f"minuterie failed ({err}) for time {m.time!r}", key=key, witness={"stdout": out[-300:]})
    elif float(mm.group(1)) == m.time or (m.time != m.time and float(mm.group(1)) != float(mm.group(1))):
        rec.ok(key, True)
    else:
        rec.violation(f"minuterie printed {mm.group(1)} for header time {m.time!r}", key=key)

    # ---- menu default view
    hv = ["-hv", f"{reps[0]}, not_there"]
    optsets = [([], "default"), (["-m"], "minmax"), (["-f"], "finest"), (["-m", "-f"], "minmax+finest"),
               (["-d"], "description"), (["-e"], "every"), (hv, "has_var")]
    # two options together: every view asked for is printed (min/max table, search result, description / table of all
    # known fields, in that order) - three combinations per case, rotating
    combos = [(hv + ["-d"], "has_var,description"), (["-m", "-d"], "minmax,description"), (["-f", "-e"], "finest,every"),
              (hv + ["-m"], "minmax,has_var"), (hv + ["-e"], "has_var,every"), (["-m", "-f", "-d"], "minmax+finest,description"),
              (["-d"] + hv + ["-f"], "finest,has_var,description")]
    k0 = rng.randrange(len(combos))
    optsets += [combos[(k0 + j) % len(combos)] for j in range(3)]
    order = list(optsets)
    rng.shuffle(order)
    for opts, od in order + [optsets[0]]:        # the default view again after the others (class-level state)
        views = od.split(",")
        if len(views) > 1:
            rec.count("menu_runs_with_two_or_more_views")
        out, err = run_tool("amr_kitchen.menu.cli", ["menu", path] + opts, work, sub and od == "default")
        rec.count("menu_runs")
        key = (digest, "menu", od)
        descr = f"menu {' '.join(opts)} on fields {names}"
        if err:
            rec.violation(f"menu raised {err.split(':')[0]}: {descr}", key=key, witness={"options": opts, "exc": err, "names": names})
            continue
        if blanks:
            rec.count("menu_runs_not_parsed")
            continue
        probs = []
        for od in views:      # an option combination prints several views one after the other: each is judged
            if od == "default":
                rows, rest = boxed(out, "Fields found in file:")
                toks = " ".join(rows).split() if rows is not None else None
                if toks is None:
                    rec.undecided("menu default view not recognised (output layout changed?)")
                    continue
                else:
                    want = sorted(set(reps))
                    if sorted(toks) != want:
                        missing = [x for x in want if x not in toks]
                        twice = sorted({x for x in toks if toks.count(x) > 1})
                        extra = [x for x in toks if x not in want]
                        probs.append(f"fields box lists {sorted(toks)}; header fields are represented by {want} "
                                     f"(missing {missing}, listed twice {twice}, unexpected {extra})")
                if species:
                    srows, _ = boxed(out, "Species found in file:")
                    stoks = " ".join(srows).split() if srows is not None else None
                    if stoks is None or sorted(stoks) != species:
                        probs.append(f"species box lists {stoks}; header has {species}")
            elif od in ("minmax", "finest", "minmax+finest"):
                rec.count("minmax_tables")
                rows, _ = boxed(out.split("Fields' Mins and Maxs:")[-1], "Units") if "Fields' Mins and Maxs:" in out else (None, None)
                if rows is None:
                    rec.undecided("menu min/max table not recognised (output layout changed?)")
                    continue
                else:
                    got = {}
                    dup = []
                    for row in rows:
                        for part in row.split("\t"):
                            if " : " not in part:
                                continue
                            nm, rest = part.split(" : ", 1)
                            nm = nm.strip()
                            if not nm:
                                continue
                            t = rest.split()
                            if nm in got:
                                dup.append(nm)
                            got[nm] = t[:2]
                    finest_only = od in ("finest", "minmax+finest")
                    for fi, nm in enumerate(names):
                        lvs = [r["finest"]] if finest_only else range(r["finest"] + 1)
                        emin = min(min(row[fi] for row in r["levels"][lv]["mins"]) for lv in lvs)
                        emax = max(max(row[fi] for row in r["levels"][lv]["maxs"]) for lv in lvs)
                        if nm not in got:
                            probs.append(f"field {nm} has no row in the min/max table ({len(names)} fields)")
                            continue
                        try:
                            gmin, gmax = float(got[nm][0]), float(got[nm][1])
                        except Exception:
                            probs.append(f"row of {nm} unparsable: {got[nm]}"); continue
                        if gmin != fmt3(emin) or gmax != fmt3(emax):
                            probs.append(f"field {nm}: printed ({got[nm][0]}, {got[nm][1]}), extrema of the "
                                         f"{'finest level' if finest_only else 'levels'} tables are ({fmt3(emin)!r}, {fmt3(emax)!r})")
                    if dup:
                        probs.append(f"fields listed twice: {dup}")
                    extra = [k for k in got if k not in names]
                    if extra:
                        probs.append(f"rows for names not in the header: {extra}")
            elif od == "description":
                rows, _ = boxed(out.split("Fields found in file:")[-1], "Description") if "Fields found in file:" in out else (None, None)
                if rows is None:
                    rec.undecided("menu description table not recognised (output layout changed?)")
                    continue
                else:
                    got = [row.split(" : ")[0].strip() for row in rows if " : " in row]
                    if sorted(got) != sorted(set(reps)):
                        probs.append(f"description table lists {sorted(got)}; expected {sorted(set(reps))}")
            elif od == "every":
                # the table of all known fields: a name is flagged present exactly when a header field is represented by it
                rows, _ = boxed(out.split("All known fields:")[-1], "Present") if "All known fields:" in out else (None, None)
                if rows is None:
                    rec.undecided("menu table of all known fields not recognised (output layout changed?)")
                    continue
                flags = {}
                twice = []
                for row in rows:
                    if " : " not in row:
                        continue
                    t = row.split(" : ")[0].split()
                    if len(t) >= 2 and t[-1] in ("Yes", "No"):
                        nm = " ".join(t[:-1])
                        if nm in flags:
                            twice.append(nm)
                        flags[nm] = t[-1] == "Yes"
                if not flags:
                    rec.undecided("menu table of all known fields not recognised (output layout changed?)")
                    continue
                yes = sorted(k for k, v in flags.items() if v)
                if yes != sorted(set(reps)) or twice:
                    probs.append(f"table of all known fields flags {yes} as present; the header fields are represented by "
                                 f"{sorted(set(reps))} (listed twice: {twice})")
            elif od == "has_var":
                if f"'{reps[0]}' found" not in out or "'not_there' not found" not in out:
                    probs.append(f"search results wrong: {out.strip()[:200]}")
        rec.count("menu_views_judged")
        if probs:
            rec.violation(f"menu output does not report the header ({probs[0][:160]}): {descr}", key=key,
                          witness={"options": opts, "names": names, "differences": probs[:4]})
        else:
            rec.ok(key, nt)

    # ---- marinate (3D only: the pickled reader is built with ghost=True)
    if m.ndims == 3:
        from amr_kitchen import PlotfileCooker
        pools.CTL.reset(mode="inproc", seed=1)
        before = set(os.listdir(path))
        out, err = run_tool("amr_kitchen.marinate", ["marinate", path], work, False)
        key = (digest, "marinate")
        rec.count("marinate")
        # beside the plotfile: next to the directory the path designates, or next to the path as spelled
        # (they differ when the path goes up from a symbolic link) - the statement does not say which
        pk = next((c for c in (path + ".pkl", os.path.abspath(path) + ".pkl") if os.path.isfile(c)), path + ".pkl")
        if err or not os.path.isfile(pk):
            rec.violation(f"marinate failed ({err}); pickle beside the plotfile: {os.path.isfile(pk)}", key=key)
        elif set(os.listdir(path)) != before:
            rec.violation("marinate wrote inside the plotfile", key=key)
        else:
            with open(pk, "rb") as f:
                pck = pickle.load(f)
            probs = contracts.compare_cooker(pck, r, maxmins=True)
            lv = rng.randrange(m.nlevels); bi = rng.randrange(len(m.boxes[lv]))
            try:
                if not refparse.biteq(pck[:][lv][bi], m.data[lv][bi]):
                    probs.append("unpickled reader returns other box data")
            except Exception as e:
                probs.append(f"unpickled reader raised {type(e).__name__}")
            if probs:
                rec.violation(f"marinated reader differs after unpickling ({probs[0][:100]})", key=key,
                              witness={"differences": probs[:4]})
            else:
                rec.ok(key, True)
