"""C01 — box data read through the indexing interface is exactly what is on disk.
History + executable model: every call pck[fsel][lv][bsel] is recorded with its outcome and
compared bit for bit with the generator's model; M6 contracts check the six reader workers at
the source; M1 pool shim (shuffled schedules) serves the multi-box selections."""
import os, random, itertools
import numpy as np
from .. import common, gen, refparse, workload, pools, contracts, endurance

ID = "C01"
LEVEL = "exploration"
RULE = ("cases = generated 2D/3D plotfiles (1-4 levels, bf 1..8 incl. extent-1 boxes, boxes "
        "scattered over files in shuffled on-disk order, special payloads) x enumerated selector "
        "forms for fields (names, ints, name lists, ascending index lists, all forward slices) and "
        "boxes (ints, negative ints, slices incl. negative step, index lists/arrays, boolean "
        "masks) plus unsupported forms; one evaluation = one pck[fsel][lv][bsel] call compared "
        "bitwise with the model. distinct = hash(model digest, fsel, lv, bsel); non-trivial = "
        "returns >=1 box of >=2 cells from a plotfile with >=2 fields and (first component >0 "
        "or level uses >=2 files or in-file order != box order)")
ASSUMPTIONS = ["generator writes what AMReX writes (cross-checked by refparse round trip and on "
               "the real assets in the thorough tier)", "numpy fromfile/tobytes are correct",
               "pool shim M1 executes tasks in-process in shuffled order; real pools are C12's"]
REQUIRED_OBS = {"endurance_calls": 100, "forms:supported_ok": 100, "forms:unsupported_raise": 5}
OPT_SUBSET = {"quick": 1, "thorough": 2}      # the share of cases also run under python -O: the anchor code validates with assert statements
TIMEOUT = {"quick": 300, "thorough": 1200}


def cases(tier, seed):
    n = 72 if tier == "quick" else 2000
    cs = workload.reader_population(n, seed)
    for i, c in enumerate(cs):
        c["kind"] = "gen"
        c["sel_seed"] = seed * 7 + i
        c["budget"] = 170 if tier == "quick" else 2000
    # a deep, narrow hierarchy: 11 levels, so that the directory names do not sort like the level numbers
    # (Level_10 comes between Level_1 and Level_2)
    for j, nd in enumerate((3, 2) if tier == "thorough" else ((3, 2)[seed % 2],)):
        cs.append({"kind": "gen", "gen": dict(seed=seed + 5150 + j, ndims=nd, nlevels=1, base=[2] * nd, bf=2, maxsz=2,
                                              names=["f0", "f1", "f2"], payload="random", nfiles=1),
                   "fmt": {}, "deepen": 11, "sel_seed": seed * 7 + 5150 + j, "budget": 170})
    # scale: more than a thousand (2D) / several hundred (3D) boxes at a level, spread over ~ 96 binary files
    for j, nd in enumerate((2, 3) if tier == "thorough" else ((2, 3)[(seed + 1) % 2],)):
        cs.append({"kind": "gen", "scale": "manyboxes", "gen": dict(seed=seed + 6160 + j, ndims=nd, nfields=3),
                   "fmt": {}, "sel_seed": seed * 7 + 6160 + j, "budget": 60})
    if tier == "thorough":
        for a in ("example_plt_2d", "example_plt_3d", "plt1_Y", "plt2_F", "plt_eb_3d"):
            cs.append({"kind": "asset", "asset": a, "sel_seed": seed, "budget": 120})
        cs.append({"kind": "repo_suite", "sel_seed": seed})
    # M10: the same operation repeated in one process under a low open-file limit (vlib/endurance.py)
    return list(cs) + [endurance.case("index", tier, seed)]


# ---------------------------------------------------------------- selector enumeration
def field_selectors(names, keys, rng, budget):
    """-> list of (descr, selector, comps (list|int|None), supported)"""
    nf = len(names)
    out = []
    first = {}
    for i, k in enumerate(keys):
        out.append((f"name:{k}", k, i, True))
    for i in range(nf):
        out.append((f"int:{i}", i, i, True))
        out.append((f"npint:{i}", np.int64(i), i, False))
        out.append((f"negint:{i - nf}", i - nf, i, False))
    # ascending index lists
    combos = []
    for L in (1, 2, 3):
        combos += list(itertools.combinations(range(nf), L))
    if len(combos) > 40:
        combos = rng.sample(combos, 40)
    for c in combos:
        out.append((f"list:{list(c)}", list(c), list(c), True))
    if nf >= 4:
        c = sorted(rng.sample(range(nf), rng.randint(4, nf)))
        out.append((f"list:{c}", c, c, True))
    for c in combos[:6]:
        out.append((f"names:{[keys[i] for i in c]}", [keys[i] for i in c], list(c), True))
        out.append((f"nparr:{list(c)}", np.array(c), list(c), True))
    # forward slices
    sl = []
    rngv = [None] + list(range(0, nf + 2))
    for a in rngv:
        for b in rngv:
            for s in (None, 1, 2, 3):
                sl.append((a, b, s))
    sl += [(-1, None, None), (-2, None, None), (None, -1, None), (-3, -1, 1)]
    if len(sl) > 90:
        sl = [(None, None, None)] + rng.sample(sl, 89)
    for a, b, s in sl:
        comps = list(range(nf))[slice(a, b, s)]
        out.append((f"slice:{a}:{b}:{s}", slice(a, b, s), comps, len(comps) > 0))
    # unsupported forms with a natural reading
    for c in combos[:8]:
        if len(c) >= 2:
            d = list(reversed(c))
            out.append((f"desclist:{d}", d, d, False))
            r = [c[0], c[0]] + list(c[1:])
            out.append((f"replist:{r}", r, r, False))
            out.append((f"negstep", slice(c[-1], None if c[0] == 0 else c[0] - 1, -1),
                        list(range(nf))[slice(c[-1], None if c[0] == 0 else c[0] - 1, -1)], False))
            out.append((f"unordnames", [keys[i] for i in d], d, False))
            out.append((f"neglist:{[i - nf for i in c]}", [i - nf for i in c], list(c), False))
    # indices counted from the end: the run of the last two / three fields as a list and as an array, and every field
    for kk in (2, 3, nf):
        if 2 <= kk <= nf:
            tail = list(range(-kk, 0))
            out.append((f"negtail:{tail}", tail, list(range(nf - kk, nf)), False))
            out.append((f"negtailarr:{tail}", np.array(tail), list(range(nf - kk, nf)), False))
    # lists that are not ascending although their last element is not below the first (a check of the
    # end points alone lets them through): an interior element below the first, a reversed interior, shuffled
    for _ in range(6):
        if nf < 3:
            break
        k = rng.randint(3, min(nf, 5))
        base = sorted(rng.sample(range(nf), k))
        variants = [[base[1], base[0]] + base[2:], rng.sample(base, k)]
        if k >= 4:
            variants.append([base[0]] + list(reversed(base[1:-1])) + [base[-1]])
        for u in variants:
            if u == sorted(u):
                continue
            out.append((f"unordlist:{u}", u, u, False))
            out.append((f"unordnames:{u}", [keys[i] for i in u], u, False))
    # non-decreasing lists that repeat a field and skip as many as they repeat: as long as the span they cover
    if nf >= 3:
        reps = [[0, 0, 2], [nf - 3, nf - 1, nf - 1]]
        if nf >= 4:
            a = rng.randrange(nf - 3)
            reps += [[a, a + 1, a + 1, a + 3], [a, a, a, a + 3]]
        for r in reps:
            out.append((f"repgap:{r}", r, r, False))
            out.append((f"repgapnames:{r}", [keys[i] for i in r], r, False))
            out.append((f"repgaparr:{r}", np.array(r), r, False))
    out.append(("negstep:all", slice(None, None, -1), list(range(nf))[::-1], False))
    mask = [rng.random() < 0.5 for _ in range(nf)]
    if any(mask):
        out.append((f"boolmask", mask, [i for i, v in enumerate(mask) if v], False))
        out.append((f"npboolmask", np.array(mask), [i for i, v in enumerate(mask) if v], False))
    if nf >= 2:
        # a mask whose False entries all come first (what `names >= "Y("` or `arange(nf) >= k` gives): read as
        # the integers 0 / 1 it is a non-decreasing "index list"
        k = rng.randint(1, nf - 1)
        out.append((f"npboolmask:sorted{k}", np.arange(nf) >= k, list(range(k, nf)), False))
        out.append((f"boolmask:sorted{k}", [i >= k for i in range(nf)], list(range(k, nf)), False))
    out.append(("int32arr", np.array([0, nf - 1][:nf], dtype=np.int32), [0, nf - 1][:nf], False))
    # unsupported forms without any reading: only an exception is acceptable
    out.append(("oob:int", nf, None, False))
    out.append(("oob:int+3", nf + 3, None, False))
    out.append(("oob:neg", -nf - 1, None, False))
    out.append(("oob:list", [0, nf], None, False))
    out.append(("unknown:name", "no_such_field", None, False))
    out.append(("unknown:inlist", [keys[0], "no_such_field"], None, False))
    out.append(("float", 0.0, None, False))
    out.append(("none", None, None, False))
    out.append(("tuple", (0,), [0], False))     # natural reading: the one-element list
    out.append(("emptylist", [], None, False))
    out.append(("2d", [[0]], None, False))
    return out


def box_selectors(nb, rng):
    """-> list of (descr, selector, box indices (list) | int | None, supported)"""
    out = []
    for i in range(min(nb, 6)):
        out.append((f"int:{i}", i, i, True))
    for i in rng.sample(range(nb), min(nb, 4)):
        out.append((f"int:{i}", i, i, True))
        out.append((f"negint:{i - nb}", i - nb, i, True))
        out.append((f"npint:{i}", np.int64(i), i, True))
    vals = [None] + list(range(-nb - 1, nb + 2))
    sl = [(a, b, s) for a in vals for b in vals for s in (None, 1, 2, -1, -2, 3)]
    if len(sl) > 60:
        sl = [(None, None, None), (None, None, -1), (None, None, 2)] + rng.sample(sl, 57)
    for a, b, s in sl:
        out.append((f"slice:{a}:{b}:{s}", slice(a, b, s), list(range(nb))[slice(a, b, s)], True))
    for _ in range(8):
        k = rng.randint(1, min(nb, 5))
        ids = [rng.randrange(nb) for _ in range(k)]
        out.append((f"list:{ids}", ids, ids, True))
        out.append((f"arr:{ids}", np.array(ids), ids, True))
    ids = list(range(nb)); rng.shuffle(ids)
    out.append((f"perm", ids, list(ids), True))
    out.append((f"neglist", [i - nb for i in ids[:3]], ids[:3], True))
    if nb <= 4:
        masks = list(itertools.product([False, True], repeat=nb))
    else:
        masks = [tuple(rng.random() < 0.5 for _ in range(nb)) for _ in range(8)]
        masks += [tuple([True] * nb), tuple([False] * nb)]
    for mk in masks:
        sel = [i for i, v in enumerate(mk) if v]
        out.append((f"mask:{''.join('1' if v else '0' for v in mk)}", np.array(mk, dtype=bool), sel, True))
    if nb >= 1:
        mk = [rng.random() < 0.5 for _ in range(nb)]
        out.append(("listmask", mk, [i for i, v in enumerate(mk) if v], True))
    out.append(("emptylist", [], [], True))
    # unsupported
    out.append(("oob:int", nb, None, False))
    out.append(("oob:neg", -nb - 1, None, False))
    out.append(("oob:list", [0, nb], None, False))
    out.append(("wrongmask", np.array([True] * (nb + 1)), None, False))
    out.append(("float", 0.5, None, False))
    out.append(("none", None, None, False))
    out.append(("tuple", (0,), None, False))
    out.append(("str", "0", None, False))
    out.append(("int32arr", np.array([0], dtype=np.int32), [0], False))
    out.append(("uintarr", np.array([0], dtype=np.uint64), [0], False))
    out.append(("floatarr", np.array([0.0]), None, False))
    out.append(("2d", np.array([[0]]), None, False))
    return out


# ---------------------------------------------------------------- the oracle
def expected(data_lv, comps, bidx):
    """model slice for component selection comps (int|list) and box index bidx"""
    arr = data_lv[bidx]
    return arr[..., comps]


def matches(val, data_lv, comps, boxes):
    """(value is exactly the stored data of comps x boxes, shape description)"""
    try:
        if isinstance(boxes, int):
            ok = isinstance(val, np.ndarray) and refparse.biteq(val, expected(data_lv, comps, boxes))
            shp = getattr(val, "shape", None)
        else:
            ok = (isinstance(val, (list, tuple)) and len(val) == len(boxes) and
                  all(isinstance(v, np.ndarray) and refparse.biteq(v, expected(data_lv, comps, b))
                      for v, b in zip(val, boxes)))
            shp = [getattr(v, "shape", None) for v in val][:3] if isinstance(val, (list, tuple)) else type(val).__name__
    except Exception as e:
        ok, shp = False, f"uncomparable result ({type(e).__name__})"
    return ok, shp


def judge(rec, outcome, data_lv, comps, boxes, f_supported, b_supported, key, nontrivial, descr):
    """outcome = ('exc', name) | ('val', value)"""
    supported = f_supported and b_supported
    has_reading = comps is not None and boxes is not None
    kind, val = outcome
    if kind == "exc":
        if supported:
            rec.violation(f"supported selection raised {val}: {descr}", key=key,
                          witness={"selection": descr, "exception": val})
        else:
            rec.count("forms:unsupported_raise")
            rec.ok(key, False)
        return
    # a value came back
    if not has_reading:
        rec.violation(f"selection that cannot be honoured returned a value instead of raising: {descr}",
                      key=key, witness={"selection": descr, "returned": type(val).__name__})
        return
    ok, shp = matches(val, data_lv, comps, boxes)
    if ok:
        rec.count("forms:supported_ok" if supported else "forms:unsupported_right")
        rec.ok(key, nontrivial)
    else:
        rec.violation(("supported" if supported else "unsupported") +
                      f" selection returned data that is not the stored data of the requested "
                      f"fields/boxes: {descr}", key=key,
                      witness={"selection": descr, "got_shape": str(shp),
                               "expected_shape": str(np.shape(expected(data_lv, comps, boxes if isinstance(boxes, int) else boxes[0])) if boxes != [] else None)})


judge_one = judge


def setup():
    pools.install()
    contracts.install(("headers", "readers"))


def run_case(case, work, rec):
    if case.get("kind") == "endurance":
        return endurance.run_case(case, work, rec)
    if case.get("kind") == "repo_suite":
        # the contracts while the repository's own tests run (real assets, real pools)
        from .. import reposuite
        counts, fails, summary, npids = reposuite.run(work, ['headers', 'readers'])
        rec.count("repo_suite_runs")
        rec.count("repo_suite_processes_reporting", npids)
        total = 0
        for k, v in counts.items():
            rec.count("repo_suite_calls:" + k, v)
            total += v
        rec.sample({"repo_suite": summary, "contract_evaluations": counts})
        mine = [f for f in fails if f["fail"] in ('mp_read_box','mp_read_bfile','shape_from_header','indices_from_header','header_from_indices')]
        if total == 0:
            rec.undecided("no contract evaluated under the repository's suite")
        for f in mine[:10]:
            rec.violation(f"contract on {f['fail']} broken while the repository's own tests ran: {f['detail'][:200]}",
                          witness=f, key=("repo_suite", f["fail"], f["detail"][:80]))
        if not mine and total:
            rec.ok(("repo_suite", summary), True)
        return
    from amr_kitchen import PlotfileCooker
    rng = random.Random(case["sel_seed"])
    if case["kind"] == "asset":
        path = os.path.join(common.REPO, "test_assets", case["asset"])
        r = refparse.parse(path)
        names = r["names"]
        data = [[d["arr"] for d in lev["data"]] for lev in r["levels"]]
        nfiles = [len({f for f, o in lev["fod"]}) for lev in r["levels"]]
        nonmono = [True] * len(data)
        digest = case["asset"]
    else:
        m, path = workload.build(case, work)
        # generator self-check: what was written parses back to the model
        r = refparse.parse(path)
        for lv in range(m.nlevels):
            for bi, d in enumerate(r["levels"][lv]["data"]):
                if not refparse.biteq(d["arr"], m.data[lv][bi]) or tuple(d["hlo"]) != m.boxes[lv][bi].lo:
                    raise RuntimeError("generator/refparse round trip failed")
        names = m.names
        data = m.data
        nfiles = [m.nfiles(lv) for lv in range(m.nlevels)]
        nonmono = [m.nonmonotone(lv) for lv in range(m.nlevels)]
        digest = common.sha(case["gen"])
        rec.sample({"plotfile": gen.describe(m), "fmt": case.get("fmt")})
    pools.CTL.reset(mode="inproc", seed=case["sel_seed"])
    # every other case the reader also carries the min/max tables of the level headers (maxmins=True: what menu,
    # marinate and pestle's callers use); what a read returns must not depend on it
    if case["sel_seed"] % 2 == 1:
        pck = PlotfileCooker(path, maxmins=True)
        rec.count("readers_opened_with_minmax_tables")
    else:
        pck = PlotfileCooker(path)
    keys = list(pck.fields.keys())
    nl = len(data)
    nf = len(names)
    fsels = field_selectors(names, keys, rng, case["budget"])
    n0 = dict(contracts.COUNTS)

    def call(fsel, lv, bsel):
        try:
            return ("val", pck[fsel][lv][bsel])
        except Exception as e:
            return ("exc", type(e).__name__)

    kept = []       # results held while later selections run: they must not change afterwards
    reread = []     # (selectors, result) of supported selections, for step (6)

    def judge(rec, outcome, data_lv, comps, boxes, fsup, bsup, key, nt, descr):
        judge_one(rec, outcome, data_lv, comps, boxes, fsup, bsup, key, nt, descr)
        if outcome[0] == "val" and comps is not None and boxes is not None and (len(kept) < 24 or rng.random() < 0.02):
            if matches(outcome[1], data_lv, comps, boxes)[0]:
                kept.append((outcome[1], data_lv, comps, boxes, descr, key))

    def nontriv(comps, boxes, lv):
        if comps is None or boxes is None or nf < 2:
            return False
        bl = [boxes] if isinstance(boxes, int) else boxes
        if not bl or all(data[lv][b][..., 0].size < 2 for b in bl):
            return False
        c0 = comps if isinstance(comps, int) else (comps[0] if comps else 0)
        return c0 > 0 or nfiles[lv] >= 2 or nonmono[lv]

    done = 0
    # (1) every field selector x {one int box, one multi-box form} at a random level
    rng.shuffle(fsels)
    for fd, fsel, comps, fsup in fsels:
        lv = rng.randrange(nl)
        nb = len(data[lv])
        b = rng.randrange(nb)
        ids = [rng.randrange(nb) for _ in range(rng.randint(1, min(3, nb)))]
        for bd, bsel, boxes in ((f"int:{b}", b, b), (f"list:{ids}", ids, ids)):
            key = (digest, fd, lv, bd)
            out1 = call(fsel, lv, bsel)
            judge(rec, out1, data[lv], comps, boxes, fsup, True, key,
                  nontriv(comps, boxes, lv), f"[{fd}][{lv}][{bd}]")
            if fsup and out1[0] == "val" and comps is not None and len(reread) < 40 and matches(out1[1], data[lv], comps, boxes)[0]:
                reread.append((fsel, lv, bsel, out1[1], data[lv], comps, boxes, f"[{fd}][{lv}][{bd}]", key))
            rec.seen("field_forms", fd.split(":")[0])
            done += 1
        if done > case["budget"]:
            break
    # (2) every box selector x {one single field, one multi field} at every level
    for lv in range(nl):
        nb = len(data[lv])
        bsels = box_selectors(nb, rng)
        rng.shuffle(bsels)
        cnt = 0
        for bd, bsel, boxes, bsup in bsels:
            f1 = rng.randrange(nf)
            fl = sorted(rng.sample(range(nf), min(nf, rng.randint(1, 3))))
            for fd, fsel, comps in ((f"int:{f1}", f1, f1), (f"list:{fl}", fl, fl)):
                key = (digest, fd, lv, bd)
                judge(rec, call(fsel, lv, bsel), data[lv], comps, boxes, True, bsup, key,
                      nontriv(comps, boxes, lv), f"[{fd}][{lv}][{bd}]")
                rec.seen("box_forms", bd.split(":")[0])
            cnt += 1
            if cnt * nl > case["budget"]:
                break
    # (3) levels: out of range must raise; negative levels: raise or the python reading
    for lvsel, exp_lv in ((nl, None), (nl + 2, None), (-1, nl - 1), (-nl, 0), (-nl - 1, None),
                          (1.5, None), ("0", None), (None, None)):
        out = call(0, lvsel, 0)
        judge(rec, out, data[exp_lv] if exp_lv is not None else None, 0 if exp_lv is not None else None,
              0 if exp_lv is not None else None, True, False, (digest, "lv", str(lvsel)), False,
              f"[int:0][level {lvsel!r}][int:0]")
    # (3b) a level limit together with negative level numbers: the reader then exposes levels 0..L, and -1 is the
    # finest level it exposes (or the selection is refused) - never a level counted from the Header's finest
    if nl >= 2 and case["kind"] == "gen":
        for L in range(nl - 1):
            try:
                pckL = PlotfileCooker(path, limit_level=L)
            except Exception as e:
                rec.violation(f"opening with limit_level={L} raised {type(e).__name__}", key=(digest, "open-limit", L))
                continue
            for neg in range(-1, -(L + 3), -1):
                exp_lv = L + 1 + neg if -(L + 1) <= neg else None
                try:
                    out = ("val", pckL[0][neg][0])
                except Exception as e:
                    out = ("exc", type(e).__name__)
                rec.count("negative_levels_under_a_limit")
                judge(rec, out, data[exp_lv] if exp_lv is not None else None, 0 if exp_lv is not None else None,
                      0 if exp_lv is not None else None, True, False, (digest, "neg-lv", L, neg), False,
                      f"[int:0][level {neg}][int:0] with limit_level={L} ({nl} levels in the Header)")
    # (5) one selector object used for point queries near box faces (not judged here: C19's subject) and then
    # for box reads: what it returns afterwards is judged like any other selection
    if case["kind"] == "gen" and m.ndims == 3:
        for fd, fsel, comps, fsup in [x for x in fsels if x[3] and x[2] is not None][:6]:
            lv = rng.randrange(nl)
            nb = len(data[lv])
            b = rng.randrange(nb)
            bx = m.boxes[lv][b]
            try:
                sel = pck[fsel]
            except Exception:
                continue
            for d in range(3):
                for edge, off in ((bx.hi[d] + 1, -0.25), (bx.lo[d], 0.25), (bx.hi[d] + 1, -0.6)):
                    pt = [m.geo_low[k] + (bx.lo[k] + 0.5 * bx.shape[k]) * m.dx[lv][k] for k in range(3)]
                    pt[d] = m.geo_low[d] + (edge + off) * m.dx[lv][d]
                    try:
                        sel(*pt)
                        rec.count("point_queries_before_reads")
                    except Exception:
                        rec.count("point_queries_before_reads_raised")
            ids = [rng.randrange(nb) for _ in range(min(2, nb))]
            for bd, bsel, boxes in ((f"int:{b}", b, b), (f"list:{ids}", ids, ids)):
                try:
                    out = ("val", sel[lv][bsel])
                except Exception as e:
                    out = ("exc", type(e).__name__)
                judge(rec, out, data[lv], comps, boxes, fsup, True, (digest, fd, lv, bd, "after-points"),
                      nontriv(comps, boxes, lv), f"[{fd}][{lv}][{bd}] on a selector first used for point queries")
    # (4) results returned earlier still hold the stored data (no aliasing of a buffer a later read reuses)
    for val, data_lv, comps, boxes, descr, key in kept:
        rec.count("results_rechecked_later")
        if not matches(val, data_lv, comps, boxes)[0]:
            rec.violation(f"a result returned earlier changed while later selections were read: {descr}",
                          key=key + ("later",), witness={"selection": descr})
    # (6) what a read returned belongs to the caller: overwriting it must not change what later reads return
    for fsel, lv, bsel, val, data_lv, comps, boxes, descr, key in list(reread)[:12]:
        try:
            for v in ([val] if isinstance(val, np.ndarray) else list(val)):
                if isinstance(v, np.ndarray) and v.flags.writeable:
                    v[...] = 7.7e77
                    rec.count("results_overwritten_by_caller")
        except Exception:
            continue
        judge(rec, call(fsel, lv, bsel), data_lv, comps, boxes, True, True, key + ("reread",), False,
              descr + " read again after the caller overwrote the first result")
    # (7) the caller is a daemonic process (a user function mapped over a multiprocessing.Pool reads boxes itself).
    # A real pool cannot be started there (multiprocessing refuses: the unchanged reader raises AssertionError); under
    # the M1 shim the read goes through. Either way the statement forbids *other* data: a refusal is counted, a value
    # is judged like any other.
    import multiprocessing
    cfg = multiprocessing.current_process()._config
    was = cfg.get("daemon")
    cfg["daemon"] = True
    try:
        for fsel, lv, bsel, val, data_lv, comps, boxes, descr, key in list(reread)[:10]:
            nb = len(data_lv)
            if nb < 2:
                continue
            for bd, bs, bx in ((f"list:[{nb - 1}, 0]", [nb - 1, 0], [nb - 1, 0]), (f"slice:1:{nb}", slice(1, nb), list(range(1, nb))),
                               (f"mask:last", [False] * (nb - 1) + [True], [nb - 1])):
                out = call(fsel, lv, bs)
                if out[0] == "exc":
                    rec.count("reads_from_a_daemonic_caller_refused:" + out[1])
                    continue
                rec.count("reads_from_a_daemonic_caller")
                judge(rec, out, data_lv, comps, bx, True, True, key + ("daemonic", bd), nontriv(comps, bx, lv),
                      descr.rsplit("[", 1)[0] + f"[{bd}] read by a daemonic process")
    finally:
        if was is None:
            cfg.pop("daemon", None)
        else:
            cfg["daemon"] = was
    # monitors: contracts evaluated in this case, pool log
    for k, v in contracts.COUNTS.items():
        rec.count("calls:" + k, v - n0.get(k, 0))
    if nl >= 11:
        rec.count("deep_hierarchies")
    rec.count("pool_calls", len(pools.CTL.calls))
    rec.count("pool_calls_nonidentity", sum(1 for c in pools.CTL.calls if list(c[2]) != sorted(c[2])))
    for p in pools.check_log():
        rec.violation("pool log: " + p)
    # contracts hang on internal functions: a failure is a verdict only when the case also failed
    # behaviourally (then it localises the defect); alone it is reported as an observation
    if contracts.FAILS:
        rec.count("contract_failures", len(contracts.FAILS))
        if rec.violations:
            for f in contracts.FAILS[:3]:
                rec.violation(f"(diagnostic) contract on {f['contract']} broken at the source: {f['detail']}", witness=f)
