"""Environment set-up shared by every check: where the repository under test is imported
from, scratch space, offline third-party deps, quiet stdio helpers."""
import os, sys, atexit, shutil, tempfile, subprocess, fcntl, hashlib, json, contextlib, io

VERIF = os.path.dirname(os.path.dirname(os.path.abspath(__file__)))
REPO = os.path.abspath(os.environ.get("VERIF_REPO", "/repo"))
DEPS = os.path.join(VERIF, ".deps")
PY = "/venv/bin/python"
GUARD = "AMR_KITCHEN_VERIF"

_scratch = None


def scratch_root():
    """Per-run scratch directory (removed at exit by the process that created it)."""
    global _scratch
    if _scratch is None:
        base = os.environ.get("VERIF_SCRATCH")
        if base:
            os.makedirs(base, exist_ok=True)
        _scratch = tempfile.mkdtemp(prefix="amrk_verif_", dir=base or None)
        owner = os.getpid()

        def _cleanup():
            if os.getpid() == owner:
                shutil.rmtree(_scratch, ignore_errors=True)
        atexit.register(_cleanup)
        os.environ.setdefault("MPLCONFIGDIR", os.path.join(_scratch, "mpl"))
        os.makedirs(os.environ["MPLCONFIGDIR"], exist_ok=True)
    return _scratch


def ensure_deps():
    """icontract (+deal) installed offline beside the checks, lazily and under a lock."""
    marker = os.path.join(DEPS, "icontract")
    if not os.path.isdir(marker):
        os.makedirs(DEPS, exist_ok=True)
        with open(os.path.join(DEPS, ".lock"), "w") as lk:
            fcntl.flock(lk, fcntl.LOCK_EX)
            if not os.path.isdir(marker):
                subprocess.run([PY, "-m", "pip", "install", "--quiet", "--no-index",
                                "--find-links", "/opt/veriftools/wheels", "--target", DEPS,
                                "icontract", "deal"], check=True,
                               stdout=subprocess.DEVNULL, stderr=subprocess.DEVNULL)
    if DEPS not in sys.path:
        sys.path.append(DEPS)


def import_repo(scratch=None):
    """Import amr_kitchen from the working tree named by VERIF_REPO and prove it.
    Subprocess entries (which leave through os._exit, so no atexit clean-up) pass the work directory
    their parent gave them instead of making a scratch root of their own."""
    os.environ[GUARD] = "1"
    os.environ.setdefault("MPLBACKEND", "Agg")
    if scratch:
        os.makedirs(os.path.join(scratch, "mpl"), exist_ok=True)
        os.environ.setdefault("MPLCONFIGDIR", os.path.join(scratch, "mpl"))
    else:
        scratch_root()
    if sys.path[0] != REPO:
        sys.path.insert(0, REPO)
    import amr_kitchen
    got = os.path.dirname(os.path.dirname(os.path.abspath(amr_kitchen.__file__)))
    if os.path.realpath(got) != os.path.realpath(REPO):
        raise RuntimeError(f"amr_kitchen imported from {got}, expected {REPO}")
    return amr_kitchen


def repo_module(name):
    """Fetch a repository *module* by dotted name (packages re-export same-named classes)."""
    import importlib
    importlib.import_module(name)
    return sys.modules[name]


def sha(*parts):
    h = hashlib.sha256()
    for p in parts:
        if isinstance(p, str):
            p = p.encode()
        elif not isinstance(p, (bytes, bytearray, memoryview)):
            p = json.dumps(p, sort_keys=True, default=str).encode()
        h.update(p)
        h.update(b"\0")
    return h.hexdigest()[:16]


@contextlib.contextmanager
def quiet_fds(capture_path=None):
    """Silence (or capture to a file) fd 1 and 2 — the tools, tqdm and pool workers print a lot."""
    for stream in (sys.stdout, sys.stderr):
        try:
            stream.flush()
        except (AttributeError, ValueError):     # a write-only stand-in (runner._call_in_context)
            pass
    so, se = os.dup(1), os.dup(2)
    target = os.open(capture_path or os.devnull, os.O_WRONLY | os.O_CREAT | os.O_TRUNC, 0o644)
    old_out, old_err = sys.stdout, sys.stderr
    try:
        os.dup2(target, 1); os.dup2(target, 2)
        sys.stdout = io.TextIOWrapper(os.fdopen(os.dup(1), "wb"), line_buffering=True)
        sys.stderr = io.TextIOWrapper(os.fdopen(os.dup(2), "wb"), line_buffering=True)
        yield
    finally:
        try:
            sys.stdout.flush(); sys.stderr.flush()
        except Exception:
            pass
        sys.stdout, sys.stderr = old_out, old_err
        os.dup2(so, 1); os.dup2(se, 2)
        os.close(so); os.close(se); os.close(target)


@contextlib.contextmanager
def chdir(path):
    old = os.getcwd()
    os.chdir(path)
    try:
        yield
    finally:
        os.chdir(old)


# command-line grammar of the entry points: short spelling -> (long spelling, flag | one | many)
CLI = {
    "chef": {"-o": ("--outdir", "one"), "-r": ("--recipe", "one"), "-s": ("--species", "many"), "-R": ("--reactions", "many"),
             "-m": ("--mech", "one"), "-p": ("--pressure", "one"), "-k": ("--kept_fields", "one")},
    "chk2plt": {"-c": ("--checkpoint", "one"), "-p": ("--plotfile_ref", "one"), "-s": ("--species", "many"),
                "-ip": ("--include_gradp", "flag"), "-ir": ("--include_reactions", "flag"), "-f": ("--floor_massfracs", "flag"),
                "-o": ("--output", "one")},
    "colander": {"-v": ("--variables", "many"), "-l": ("--limit_level", "one"), "-s": ("--serial", "flag"), "-o": ("--output", "one")},
    "combine": {"-p1": ("--plotfile1", "one"), "-p2": ("--plotfile2", "one"), "-v1": ("--vars1", "one"), "-v2": ("--vars2", "one"),
                "-o": ("--output", "one"), "-s": ("--serial", "flag")},
    "mandoline": {"-n": ("--normal", "one"), "-p": ("--position", "one"), "-v": ("--variables", "many"), "-L": ("--max_level", "one"),
                  "-s": ("--serial", "flag"), "-f": ("--format", "one"), "-o": ("--output", "one"), "-c": ("--colormap", "one"),
                  "-m": ("--minimum", "one"), "-M": ("--maximum", "one"), "-l": ("--log", "flag"), "-V": ("--verbose", "one")},
    "menu": {"-hv": ("--has_var", "one"), "-e": ("--every", "flag"), "-d": ("--description", "flag"), "-m": ("--min_max", "flag"),
             "-f": ("--finest_lv", "flag")},
    "pestle": {"-v": ("--variable", "one"), "-l": ("--limit_level", "one"), "-vf": ("--volfrac", "flag")},
    "taste": {"-l": ("--limit_level", "one"), "-nh": ("--no_bin_headers", "flag"), "-ns": ("--no_bin_shape", "flag"),
              "-bd": ("--bin_data", "flag"), "-bc": ("--box_coords", "flag"), "-nf": ("--nofail", "flag"), "-v": ("--verbose", "one")},
    "whip": {"-v": ("--variable", "one"), "-l": ("--limit_level", "one"), "-o": ("--outfile", "one"), "-d": ("--dtype", "one"),
             "-y": ("--nochecks", "flag")},
}
ARGV_FORMS = {}     # spelling class -> times used (reported by the checks that drive entry points)


def vary_argv(args):
    """An equivalent spelling of a command line: option groups in another order, short / long / `--long=value` /
    abbreviated long spellings, the positional argument first or last. What argparse makes of it is the same by
    construction (the grammar above is the entry points' own); an invocation whose outcome changes with the
    spelling is a defect of the entry point. Deterministic in the arguments; VERIF_ARGV=plain turns it off."""
    import random, re
    tab = CLI.get(os.path.basename(str(args[0]))) if args else None
    if not tab or os.environ.get("VERIF_ARGV", "vary") == "plain":
        return list(args)
    byany = {}
    for sh, (lo, kind) in tab.items():
        byany[sh] = byany[lo] = (sh, lo, kind)
    longs = [lo for lo, _ in tab.values()] + ["--help"]
    groups, pos, i = [], [], 1
    while i < len(args):
        a = str(args[i])
        name, eq = (a.split("=", 1) + [None])[:2] if a.startswith("--") else (a, None)
        if name in byany:
            sh, lo, kind = byany[name]
            vals = [eq] if eq is not None else []
            i += 1
            if eq is None and kind != "flag":
                while i < len(args) and not (str(args[i]) in byany or str(args[i]).split("=", 1)[0] in byany) and \
                        (kind == "many" or not vals):
                    vals.append(str(args[i])); i += 1
            groups.append((sh, lo, kind, vals))
        elif a.startswith("-") and not re.match(r"^-?\.?\d", a):
            return list(args)          # a spelling outside the table: leave the line alone
        else:
            pos.append(a); i += 1
    # a 'many' option directly followed by positionals in the original swallowed them there too: keep such lines
    rng = random.Random(sha(list(map(str, args))))
    rng.shuffle(groups)
    out = []
    for sh, lo, kind, vals in groups:
        form = rng.choice(["short", "long", "eq", "abbrev"])
        if kind == "one" and vals and (vals[0].startswith("-") or vals[0] == ""):
            form = "eq"
        if form == "abbrev":
            k = next(k for k in range(4, len(lo) + 1) if sum(1 for x in longs if x.startswith(lo[:k])) == 1)
            name = lo[:max(k, min(len(lo), k + rng.randint(0, 2)))]
        else:
            name = sh if form == "short" else lo
        if kind == "one" and form == "eq" and vals:
            out.append(f"{lo}={vals[0]}")
        else:
            out += [name] + vals
        ARGV_FORMS[form if kind != "flag" or form in ("short", "long", "abbrev") else "long"] = \
            ARGV_FORMS.get(form, 0) + 1
    last_many = bool(groups) and groups[-1][2] == "many"
    if pos and (last_many or rng.random() < 0.5):
        return [args[0]] + pos + out
    return [args[0]] + out + pos


@contextlib.contextmanager
def argv(args):
    old = sys.argv
    sys.argv = vary_argv(list(args))
    try:
        yield
    finally:
        sys.argv = old
