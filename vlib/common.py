"""Environment set-up shared by every check: where the repository under test is imported
from, scratch space, offline third-party deps, quiet stdio helpers."""
import os, sys, atexit, shutil, tempfile, subprocess, fcntl, hashlib, json, contextlib, io

VERIF = os.path.dirname(os.path.dirname(os.path.abspath(__file__)))
REPO = os.path.abspath(os.environ.get("VERIF_REPO", "/repo"))
DEPS = os.path.join(VERIF, ".deps")
PY = "/venv/bin/python"
GUARD = "AMR_KITCHEN_VERIF"

_scratch = None


def scratch_root():
    """Per-run scratch directory (removed at exit by the process that created it)."""
    global _scratch
    if _scratch is None:
        base = os.environ.get("VERIF_SCRATCH")
        if base:
            os.makedirs(base, exist_ok=True)
        _scratch = tempfile.mkdtemp(prefix="amrk_verif_", dir=base or None)
        owner = os.getpid()

        def _cleanup():
            if os.getpid() == owner:
                shutil.rmtree(_scratch, ignore_errors=True)
        atexit.register(_cleanup)
        os.environ.setdefault("MPLCONFIGDIR", os.path.join(_scratch, "mpl"))
        os.makedirs(os.environ["MPLCONFIGDIR"], exist_ok=True)
    return _scratch


def ensure_deps():
    """icontract (+deal) installed offline beside the checks, lazily and under a lock."""
    marker = os.path.join(DEPS, "icontract")
    if not os.path.isdir(marker):
        os.makedirs(DEPS, exist_ok=True)
        with open(os.path.join(DEPS, ".lock"), "w") as lk:
            fcntl.flock(lk, fcntl.LOCK_EX)
            if not os.path.isdir(marker):
                subprocess.run([PY, "-m", "pip", "install", "--quiet", "--no-index",
                                "--find-links", "/opt/veriftools/wheels", "--target", DEPS,
                                "icontract", "deal"], check=True,
                               stdout=subprocess.DEVNULL, stderr=subprocess.DEVNULL)
    if DEPS not in sys.path:
        sys.path.append(DEPS)


def import_repo(scratch=None):
    """Import amr_kitchen from the working tree named by VERIF_REPO and prove it.
    Subprocess entries (which leave through os._exit, so no atexit clean-up) pass the work directory
    their parent gave them instead of making a scratch root of their own."""
    os.environ[GUARD] = "1"
    os.environ.setdefault("MPLBACKEND", "Agg")
    if scratch:
        os.makedirs(os.path.join(scratch, "mpl"), exist_ok=True)
        os.environ.setdefault("MPLCONFIGDIR", os.path.join(scratch, "mpl"))
    else:
        scratch_root()
    if sys.path[0] != REPO:
        sys.path.insert(0, REPO)
    import amr_kitchen
    got = os.path.dirname(os.path.dirname(os.path.abspath(amr_kitchen.__file__)))
    if os.path.realpath(got) != os.path.realpath(REPO):
        raise RuntimeError(f"amr_kitchen imported from {got}, expected {REPO}")
    return amr_kitchen


def repo_module(name):
    """Fetch a repository *module* by dotted name (packages re-export same-named classes)."""
    import importlib
    importlib.import_module(name)
    return sys.modules[name]


def sha(*parts):
    h = hashlib.sha256()
    for p in parts:
        if isinstance(p, str):
            p = p.encode()
        elif not isinstance(p, (bytes, bytearray, memoryview)):
            p = json.dumps(p, sort_keys=True, default=str).encode()
        h.update(p)
        h.update(b"\0")
    return h.hexdigest()[:16]


@contextlib.contextmanager
def quiet_fds(capture_path=None):
    """Silence (or capture to a file) fd 1 and 2 — the tools, tqdm and pool workers print a lot."""
    sys.stdout.flush(); sys.stderr.flush()
    so, se = os.dup(1), os.dup(2)
    target = os.open(capture_path or os.devnull, os.O_WRONLY | os.O_CREAT | os.O_TRUNC, 0o644)
    old_out, old_err = sys.stdout, sys.stderr
    try:
        os.dup2(target, 1); os.dup2(target, 2)
        sys.stdout = io.TextIOWrapper(os.fdopen(os.dup(1), "wb"), line_buffering=True)
        sys.stderr = io.TextIOWrapper(os.fdopen(os.dup(2), "wb"), line_buffering=True)
        yield
    finally:
        try:
            sys.stdout.flush(); sys.stderr.flush()
        except Exception:
            pass
        sys.stdout, sys.stderr = old_out, old_err
        os.dup2(so, 1); os.dup2(se, 2)
        os.close(so); os.close(se); os.close(target)


@contextlib.contextmanager
def chdir(path):
    old = os.getcwd()
    os.chdir(path)
    try:
        yield
    finally:
        os.chdir(old)


@contextlib.contextmanager
def argv(args):
    old = sys.argv
    sys.argv = list(args)
    try:
        yield
    finally:
        sys.argv = old
