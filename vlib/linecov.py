"""Optional line-coverage monitor (diagnostic): with VERIF_LINECOV=<dir> every case process records which
lines of the repository it executed (coverage.py from the repository's own virtualenv; the case
processes leave through os._exit, so the data is saved explicitly). tools/coverage_report.py merges the
files and lists the repository lines no workload reached - the blind spots of the populations."""
import os

_cov = None


def start(tag):
    global _cov
    d = os.environ.get("VERIF_LINECOV")
    if not d:
        return
    try:
        import coverage
    except ImportError:
        return
    from . import common
    os.makedirs(d, exist_ok=True)
    _cov = coverage.Coverage(data_file=os.path.join(d, f"cov.{tag}.{os.getpid()}"), data_suffix=False,
                             include=[os.path.join(common.REPO, "amr_kitchen", "*")], config_file=False)
    _cov.start()


def stop():
    global _cov
    if _cov is not None:
        try:
            _cov.stop()
            _cov.save()
        except Exception:
            pass
        _cov = None
