#!/bin/bash
# every seeded change whose patch was re-based by hand after a repair of /repo (it keeps a patch.orig_* / patch.mis* file):
# its own demonstration must still fail (exit 1) on the patched tree - a hunk that landed in the wrong, look-alike function
# applies cleanly and breaks nothing (seeded/C14_g after F51)
for s in $(ls /verif/seeded/*/patch.orig_* /verif/seeded/*/patch.mis* 2>/dev/null | sed 's#/patch\..*##; s#.*/##' | sort -u); do
  d=$(mktemp -d)
  for k in 1 2 3 4 5; do git -C /repo worktree add --detach -f $d/wt HEAD >/dev/null 2>&1 && break; sleep 2; done
  if git -C $d/wt apply /verif/seeded/$s/patch.diff 2>/dev/null; then
    (cd $d && timeout 600 /venv/bin/python /verif/seeded/$s/demo.py $d/wt > $d/out.txt 2>&1); rc=$?
    echo "$s demo_exit=$rc"
  else echo "$s STALE"; fi
  git -C /repo worktree remove --force $d/wt >/dev/null 2>&1; rm -rf $d
done
