#!/bin/bash
# runs every check of a tier on the current tree; prints one line per property
tier=${1:-quick}
cd "$(dirname "$0")/.."
for i in 01 02 03 04 05 06 07 08 09 10 11 12 13 14 15 16 17 18 19 20; do
  out=$(./check C$i $tier 2>&1); rc=$?
  echo "rc=$rc $(echo "$out" | grep -a "^\[C$i" | tail -1)"
  echo "$out" | grep -a "^VIOLATION\|^INCONCLUSIVE\|^KNOWN-FINDING\|HARNESS" | head -5
done
