#!/venv/bin/python
"""seed sweep: tools/sweep.py quick|thorough [props...] [--seeds 0,1,2] -> exit codes and the minimum
of every required observation over the seeds (to size REQUIRED_OBS with a safe margin)"""
import os, sys, json, subprocess, importlib
VERIF = os.path.dirname(os.path.dirname(os.path.abspath(__file__)))
sys.path.insert(0, VERIF)
tier = sys.argv[1] if len(sys.argv) > 1 else "quick"
seeds = [0, 1, 2, 3, 7, 12345]
props = []
for a in sys.argv[2:]:
    if a.startswith("--seeds"):
        seeds = [int(x) for x in a.split("=")[1].split(",")]
    else:
        props.append(a)
props = props or [f"C{i:02d}" for i in range(1, 21)]
bad = 0
for p in props:
    mins = {}
    rcs = []
    for s in seeds:
        env = dict(os.environ, VERIF_SEED=str(s), PYTHONHASHSEED="0")
        r = subprocess.run([os.path.join(VERIF, "check"), p, tier], capture_output=True, text=True, env=env, cwd=VERIF)
        rcs.append(r.returncode)
        if r.returncode != 0:
            bad += 1
            print(f"  !! {p} seed={s} rc={r.returncode}: " + " | ".join(l for l in r.stdout.split("\n") if l.startswith(("VIOLATION", "INCONCLUSIVE", "HARNESS")))[:400])
        ev = json.load(open(os.path.join(VERIF, "evidence", p + ".json")))["coverage"]
        obs = dict(ev["observed"])
        for k, v in ev["distinct_seen"].items():
            obs["set:" + k] = v
        obs["_inconclusive"] = -ev["inconclusive"]
        for k, v in obs.items():
            mins[k] = min(mins.get(k, v), v)
        for k in list(mins):
            if k not in obs:
                mins[k] = 0
    from vlib import common
    src = open(os.path.join(VERIF, "vlib", "props", p.lower() + ".py")).read()
    import re
    m = re.search(r"REQUIRED_OBS = (\{.*?\})", src, re.S)
    req = eval(m.group(1)) if m else {}
    line = ", ".join(f"{k}:{mins.get(k, 0)}/{v}" + ("  <<<" if mins.get(k, 0) < 2 * v else "") for k, v in req.items())
    print(f"{p} rcs={rcs} inconclusive_max={-mins.get('_inconclusive', 0)} required(min/need): {line}")
sys.exit(1 if bad else 0)
