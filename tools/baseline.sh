#!/bin/bash
# runs the repository's own suite with the guard off; expects 40 passed / 1 failed (the baseline's always-failing test)
cd /repo && env -u AMR_KITCHEN_VERIF /venv/bin/python -m pytest -q -p no:cacheprovider --timeout=900 --continue-on-collection-errors 2>&1 | tail -4
git -C /repo status --short | grep -v plt_tmp
# the always-failing test leaves its scratch output behind: never let it reach a commit of /repo
rm -rf /repo/test/plt_tmp
