#!/bin/bash
# offline set-up: third-party runtime-contract libraries beside the checks (git-ignored)
cd "$(dirname "$0")/.." || exit 1
mkdir -p .deps evidence
if [ ! -d .deps/icontract ]; then
  /venv/bin/python -m pip install --quiet --no-index --find-links /opt/veriftools/wheels --target .deps icontract deal || exit 1
fi
/venv/bin/python -c "import sys; sys.path.append('.deps'); import icontract; print('icontract', icontract.__version__)"
