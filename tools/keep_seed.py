#!/venv/bin/python
"""tools/keep_seed.py <src_dir> <seed_name>: independently re-verifies a sub-agent's breaking change
(patch applies to a fresh worktree of /repo HEAD; package imports; the repository's own suite still
reports 40 passed / 1 failed; demo.py exits 1 on the changed tree and 0 on /repo) and, only then,
keeps it as /verif/seeded/<seed_name>/{patch.diff, demo.py, meta.json}."""
import os, sys, json, shutil, subprocess, tempfile, re
src, name = sys.argv[1], sys.argv[2]
VERIF = os.path.dirname(os.path.dirname(os.path.abspath(__file__)))
d = tempfile.mkdtemp(prefix="amrk_keep_")
wt = os.path.join(d, "wt")
ran = []
ok = True
try:
    subprocess.run(["git", "-C", "/repo", "worktree", "add", "--detach", "-f", wt, "HEAD"], check=True, capture_output=True)
    r = subprocess.run(["git", "-C", wt, "apply", os.path.join(src, "patch.diff")], capture_output=True, text=True)
    ran.append(f"git apply patch.diff on a fresh worktree of /repo HEAD: rc={r.returncode}")
    ok &= r.returncode == 0
    r = subprocess.run(["/venv/bin/python", "-m", "pytest", "-q", "-p", "no:cacheprovider", "--timeout=900"], cwd=wt, capture_output=True, text=True)
    tail = [l for l in r.stdout.strip().split("\n") if "passed" in l or "failed" in l][-1:]
    ran.append(f"repository suite on the changed tree: {tail}")
    ok &= bool(tail) and "40 passed" in tail[0] and "1 failed" in tail[0]
    r1 = subprocess.run(["/venv/bin/python", os.path.join(src, "demo.py"), wt], capture_output=True, text=True, cwd=d, timeout=600)
    r0 = subprocess.run(["/venv/bin/python", os.path.join(src, "demo.py"), "/repo"], capture_output=True, text=True, cwd=d, timeout=600)
    ran.append(f"demo.py on the changed tree: exit {r1.returncode}; demo.py on /repo: exit {r0.returncode}")
    ok &= r1.returncode == 1 and r0.returncode == 0
    print("\n".join(ran))
    if not ok:
        print("NOT KEPT"); print(r1.stdout[-500:], r1.stderr[-300:], r0.stdout[-300:], r0.stderr[-300:])
        sys.exit(1)
    m = json.load(open(os.path.join(src, "meta.json")))
    dst = os.path.join(VERIF, "seeded", name)
    os.makedirs(dst, exist_ok=True)
    shutil.copy(os.path.join(src, "patch.diff"), dst)
    shutil.copy(os.path.join(src, "demo.py"), dst)
    meta = {"property": m.get("property"), "summary": m.get("summary"), "needs": m.get("needs"),
            "files_changed": m.get("files_changed"), "origin": "fresh sub-agent given only the property text and a scratch worktree",
            "verified_by_me": ran, "repo_head": subprocess.run(["git", "-C", "/repo", "rev-parse", "--short", "HEAD"], capture_output=True, text=True).stdout.strip(),
            "checks": [m.get("property")]}
    json.dump(meta, open(os.path.join(dst, "meta.json"), "w"), indent=1)
    print("KEPT as", dst)
finally:
    subprocess.run(["git", "-C", "/repo", "worktree", "remove", "--force", wt], capture_output=True)
    shutil.rmtree(d, ignore_errors=True)
    subprocess.run(["git", "-C", "/repo", "worktree", "prune"], capture_output=True)
