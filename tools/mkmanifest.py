#!/usr/bin/env python3
"""Regenerates MANIFEST.json from the property modules present (single source of truth)."""
import json, os, re, sys
HERE = os.path.dirname(os.path.dirname(os.path.abspath(__file__)))
props = [json.loads(l) for l in open(os.path.join(HERE, "properties.jsonl"))]
META = json.load(open(os.path.join(HERE, "tools", "manifest_meta.json")))
checks, na = [], []
for p in props:
    pid = p["id"]
    mod = os.path.join(HERE, "vlib", "props", pid.lower() + ".py")
    meta = META.get(pid)
    if os.path.exists(mod) and meta and not meta.get("not_applicable"):
        checks.append({
            "property_id": pid,
            "quick_cmd": f"./check {pid} quick",
            "thorough_cmd": f"./check {pid} thorough",
            "evidence_file": f"/verif/evidence/{pid}.json",
            "replay_cmd_template": f"./check {pid} --replay {{path}}",
            "engine": "vlib",
            "level_claimed": {"category": meta["level"], "text": meta["text"],
                              "design_ref": f"DESIGN.md section 5 ({pid})"},
            "level_note": meta["note"],
            "technique": meta["technique"],
        })
    else:
        na.append({"property_id": pid,
                   "reason": (meta or {}).get("not_applicable", "check not built yet in this session (work in progress); no claim")})
man = {
    "version": 1,
    "setup_cmd": "./tools/setup.sh",
    "hooks": {
        "guard": "AMR_KITCHEN_VERIF",
        "enable": "no source hooks: monitors are installed from the harness by rebinding module attributes the code resolves at call time (multiprocessing.Pool, chef/chk2plt Pool, reader workers, builtins.open, sys.addaudithook); the checks export AMR_KITCHEN_VERIF=1 and import /repo's working tree via sys.path",
        "baseline_off_cmd": "cd /repo && /venv/bin/python -m pytest -ra -q -p no:cacheprovider --timeout=900 --continue-on-collection-errors",
        "source_commits": [],
        "add_only": True,
    },
    "engines": [{"name": "vlib", "path": "/verif/vlib",
                 "serves_properties": [c["property_id"] for c in checks],
                 "kind_free_text": "runtime monitoring: generated plotfiles with a known model, independent reference parser, history-vs-model oracles, controllable pool shim, real-pool stress, file-system audit, write-fault injection, poison allocator, icontract post-conditions"}],
    "checks": checks,
    "not_applicable": na,
    "notes": "Single entry point ./check <ID> quick|thorough [--replay path]; exit 0 held / 1 VIOLATION / 2 INCONCLUSIVE. known_findings.json lists open findings (by mechanism) and fixed ones.",
}
json.dump(man, open(os.path.join(HERE, "MANIFEST.json"), "w"), indent=1)
print(f"{len(checks)} checks, {len(na)} not claimed")
