#!/venv/bin/python
"""tools/coverage_report.py [quick|thorough] [props...]: runs the checks with the line-coverage monitor on
(VERIF_LINECOV), merges what every case process recorded and writes notes/coverage_<tier>.txt: per
repository file the share of executable lines some workload executed and the lines none reached.
Diagnostic only (it shows where the input populations are blind); no verdict depends on it."""
import os, sys, subprocess, tempfile, shutil, glob
VERIF = os.path.dirname(os.path.dirname(os.path.abspath(__file__)))
tier = sys.argv[1] if len(sys.argv) > 1 and sys.argv[1] in ("quick", "thorough") else "quick"
props = [a for a in sys.argv[2:]] or [f"C{i:02d}" for i in range(1, 21)]
d = tempfile.mkdtemp(prefix="amrk_cov_")
try:
    for p in props:
        env = dict(os.environ, VERIF_LINECOV=os.path.join(d, p))
        r = subprocess.run([os.path.join(VERIF, "check"), p, tier], capture_output=True, text=True, env=env, cwd=VERIF)
        print(p, "rc", r.returncode, len(glob.glob(os.path.join(d, p, "cov.*"))), "data files", flush=True)
    import coverage
    out = []
    per_prop = {}
    allfiles = sorted(glob.glob(os.path.join(d, "*", "cov.*")))
    cov = coverage.Coverage(data_file=os.path.join(d, "merged"), config_file=False)
    cov.combine(allfiles, keep=True)
    cov.save()
    data = cov.get_data()
    tot_e = tot_x = 0
    for f in sorted(data.measured_files()):
        try:
            _, stmts, _, missing, fmt = cov.analysis2(f)
        except Exception as e:
            continue
        rel = os.path.relpath(f, "/repo")
        ex = len(stmts) - len(missing)
        tot_e += ex; tot_x += len(stmts)
        out.append(f"{rel}: {ex}/{len(stmts)} statements executed ({100.0 * ex / max(1, len(stmts)):.1f}%)  not reached: {fmt}")
    out.append(f"TOTAL {tot_e}/{tot_x} ({100.0 * tot_e / max(1, tot_x):.1f}%)")
    os.makedirs(os.path.join(VERIF, "notes"), exist_ok=True)
    with open(os.path.join(VERIF, "notes", f"coverage_{tier}.txt"), "w") as fh:
        fh.write("\n".join(out) + "\n")
    print("\n".join(out))
finally:
    shutil.rmtree(d, ignore_errors=True)
