#!/usr/bin/env python3
"""tools/mkprompts.py <round letter> <hint file>: builds the prompts for one round of breaking changes written
by fresh sub-agents - the template (/verif/tools/seed_prompt.tmpl), the text of one property, the summaries of
the changes earlier sub-agents already made for it (so the new one differs), and a round-specific hint.
Nothing about the checks in /verif goes into a prompt. Output: /tmp/seed_prompts/CXX<r>.prompt; the agent
works in /tmp/seed_wt/CXX<r> and delivers into /tmp/seed_out/CXX<r>."""
import os, sys, json, glob
VERIF = os.path.dirname(os.path.dirname(os.path.abspath(__file__)))
r, hintfile = sys.argv[1], sys.argv[2]
tmpl = open(os.path.join(VERIF, "tools", "seed_prompt.tmpl")).read()
hint = open(hintfile).read().strip()
os.makedirs("/tmp/seed_prompts", exist_ok=True)
for line in open(os.path.join(VERIF, "properties.jsonl")):
    p = json.loads(line)
    pid = p["id"]
    text = f"{pid} — {p['title']}\n\n{p['statement']}\n\nQuantified over: {p['quantifier']['text']}\n"
    wt, out = f"/tmp/seed_wt/{pid}{r}", f"/tmp/seed_out/{pid}{r}"
    s = tmpl.replace("@WT@", wt).replace("@OUT@", out).replace("@PROP@", text)
    earlier = []
    for mf in sorted(glob.glob(os.path.join(VERIF, "seeded", pid + "_*", "meta.json"))):
        earlier.append(" - " + (json.load(open(mf)).get("summary") or "")[:560].replace("\n", " "))
    s += ("\n\nADDITIONAL CONSTRAINTS: (1) earlier attempts on this property already made the following change(s); "
          "yours must be DIFFERENT (another code site and another mechanism):\n" + "\n".join(earlier) + "\n" + hint + "\n")
    open(f"/tmp/seed_prompts/{pid}{r}.prompt", "w").write(s)
    os.makedirs(out, exist_ok=True)
print("prompts written for round", r)
